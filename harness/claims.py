"""Per-property claim texts for MANIFEST.json (kept next to the registry so they change together)."""

NOTES = ("Solver-based checking of the real code (DESIGN.md). Every claim is bounded: the bounds of each harness are in "
         "harness/registry.py and are repeated in each evidence file; nothing here is a proof. Exit 2 of a check = inconclusive "
         "(timeout / out of memory / harness does not compile against an edited tree / counter-example that does not replay).")

BASE_NOTE = ("Trusted base: Kani 0.68 + CBMC 6.11 + CaDiCaL; rustc's MIR as compiled by kani-compiler for x86_64 with "
             "debug assertions and overflow checks on (the dev profile); feature `std` off, so every cpu_features probe is false and the "
             "generic (non-SIMD-intrinsic) code paths are the ones encoded. Stubs (listed per harness in the evidence): panic_nounwind -> panic!, "
             "fmt::write -> Ok. ")

CLAIMS = {
    "C12": {"na": "oracle is the C library zlib-ng on whole compressor runs over long structured inputs; neither compressor is encodable "
                  "beyond a few bytes (DESIGN.md §1) and no C front end for zlib-ng could be linked into Kani in this image; "
                  "solver-based checking cannot decide it"},
    "C17": {"na": "gz.rs is a state machine over libc open/read/write/lseek (FFI, no model) around streams created through "
                  "inflateInit2/deflateInit2, whose success path is not encodable (State written into a u8 allocation: CBMC out of memory, "
                  "DESIGN.md §1); what remains after stubbing both is too thin to decide the property"},
}


def claim(pid, text, note, **kw):
    d = {"text": text, "note": BASE_NOTE + note}
    d.update(kw)
    CLAIMS[pid] = d


claim("C05",
      "Bounded model checking of the encoder's emission kernels against RFC 1951/1950: the bit writer packs every sequence of up to 4 emissions from every valid register state exactly as RFC 1951 3.1.1 prescribes; every literal, every (length, distance) pair and every block header is emitted with the RFC fixed code / extra bits (all 256 x 32768 pairs, decided symbolically); static tables equal the RFC tables; dynamic trees at reduced alphabets: gen_codes assigns a canonical prefix-free code to every complete length set (5 symbols <= 4 bits; 8 symbols <= 7 bits), build_tree on the bit-length alphabet yields a complete code within the length limit whose lengths follow the frequencies and whose cost equals opt_len (2..=4 used symbols, any frequencies; the forced second code), send_tree's run-length coding of the lengths is read back by an RFC 1951 3.2.7 reference decoder and scan_tree predicts exactly the symbols sent (4, 5, 7 symbolic lengths; an 11-zero run); zlib header/trailer; stored blocks (level 0) parsed back by a reference parser. The solver ranges over all values inside each harness's bounds, which sampling cannot.",
      'Outside the claim: that match finders (longest_match, medium/slow) never propose a distance beyond max_dist; full-size dynamic trees and the length-limit overflow repair of gen_bitlen (not reachable at the reduced sizes); compress_block over a whole symbol buffer; whole-stream composition beyond the kernels listed in the evidence.')
claim("C01",
      "Compositional, bounded: (a) level 0 end to end: one deflate_stored call on a typed state, every input of 0..=6 bytes, every output space and flush mode, decoded by a stored-block reference parser back to the input; (b) level 1 end to end: deflate() with deflate_quick on every input of concrete length 1 and 3, decoded by a fixed-Huffman reference decoder back to the input; (c) every static symbol the encoder can emit is the RFC code (KD1/KD2) and every fixed-table entry the decoder uses is the RFC code (KI5d), so encoder and decoder agree symbol by symbol; (d) the real decoder decodes stored blocks and fixed symbols exactly (KI5c/KI5d); (e) reset leaves no state behind (KD10); (f) dynamic-tree kernels at reduced alphabets (KD4/KD5, see C05); (g) the window slide: positions move with the data, the deferred lazy match still denotes equal bytes or is dropped (inductive step over deflate_slow's loop-head invariant, 1 KiB symbolic window), hash chains slide to the same positions or NIL.",
      'Outside the claim: the match finders and the fast/medium/slow strategies themselves (only the slide they rely on), full-size dynamic trees, inputs long enough to need more than one slide, multi-call schedules beyond the bounds, deflateParams mid-stream, windowBits/memLevel sweeps. A change confined to fast/medium/slow/longest_match is not detectable by this check (seed C10c is such a change).')
claim("C02",
      "Bounded model checking of every decoder kernel with CBMC's pointer, bounds, overflow, unwrap and assertion checks plus canaries "
      "around every caller buffer, unwinding assertions as the termination argument: bit reader (any split, refill precondition), writer "
      "copy primitives (copy_match at chunk width 8 against 32 for small buffers, extend_from_window at widths 8 and 32), window ring, every gzip/zlib header mode with capture buffers of every announced capacity "
      "(incl. 0 and NULL), block layer (TypeDo, Stored/CopyBlock, Table, LenLens), symbol decoding on the fixed tables through both copies "
      "of the code, Match step with every (length, offset, window state), trailer modes, inflate() prologue/epilogue, inflateBack's "
      "distance handling. One step from an arbitrary valid state covers histories of any length for that step.",
      "Outside: compositions longer than one suspension; dynamic-table construction (inflate_table is cut out of decoder steps and checked "
      "separately at reduced alphabets in the thorough tier); the inflate_fast loop (checked stub: reaching it fails the harness); SIMD "
      "intrinsic paths (the generic chunked code at N = 32 is what is covered).")
claim("C03",
      'Bounded: the validators are decided against predicates transcribed from RFC 1950/1951/1952: zlib header (CM, CINFO vs configured window, FCHECK, FDICT), gzip method/reserved flags, BFINAL/BTYPE, LEN/NLEN, HLIT/HDIST limits, code-length order, the run-length items 16/17/18 of the code-length sequence (every repeat count short of, exactly at and past HLIT+HDIST; thorough tier), every fixed literal/length/distance code incl. the invalid codes 286/287/30/31, the distance-too-far verdict in both copies of the match code (rejected iff distance > output so far + window, every (length, offset, ring state)), trailer verdicts; LENFIX/DISTFIX equal the RFC table for all 512+32 indices; inflate_table at reduced alphabets (thorough).',
      "Outside: whole-stream acceptance (only per-validator exactness), dynamic Huffman tables at full alphabet size, 'bytes emitted before a rejection match reference zlib' (needs the C reference).")
claim("C04",
      'Bounded: split invariance of the bit reader (same bits whether delivered in one slice or cut at any point); every decoder step harness starts from an arbitrary suspended state (arbitrary bits in the register, arbitrary progress counters) and asserts that suspension consumes exactly the available input and keeps the progress needed to resume (CopyBlock, Extra/Name/Comment, LenLens, CodeLens items with their extra bits missing, LenExt/Dist/DistExt, Match partial copies in both copies of the code); the result of a step is asserted as a function of the bits alone, independent of how they arrived; flush modes only decide where a call returns (Type/TypeDo/Len_/after a stored header under Z_TREES), and the state saved there is the one the next call needs; inflate() reports BufError exactly when nothing moved or Finish could not complete.',
      'Outside: schedules of more than one suspension per harness, cuts inside dynamic-table construction; equality of two whole runs is argued by induction over steps, not decided by the solver.')
claim("C06",
      "Bounded: deflate()'s status machine with the compress function replaced by a contract stub: every level x strategy x flush, documented statuses only, duplicate-flush rule, a call refused for lack of output space changes nothing and its retry goes through, a flush starved inside the compress function is completed by the next call whatever flush preceded it, Finish under starved output (1..=3 bytes per call) reaches StreamEnd in at most 11 calls and every call makes progress; the real level-0 and level-1 paths never trip an assertion (Pending::extend capacity, fill_window asserts) for every input within bounds; deflatePrime for every i32 bits/value; params/tune/set_header/pending for every integer argument; reset from an arbitrary state; allocation-failure path of deflateCopy.",
      'Outside: Pending::extend capacity inside block emission for levels >= 2 (depends on lit_bufsize accounting over whole blocks); multi-call histories beyond the bounds listed per harness.')
claim("C07",
      "Bounded and narrow: for level 0 (every input of 0..=6 bytes at w_size 16) and level 1 (every input of length 1 and 3) a "
      "single Finish call into a buffer of deflateBound size ends with StreamEnd and produced <= bound, with both sides being the real code; "
      "Engine B decides the arithmetic of compress_bound_help / deflate_quick_overhead (no wrap-around below 2^32, monotone, >= source_len "
      "+ wrapper + block overhead).",
      "Outside: levels >= 2, Z_FIXED / Z_HUFFMAN_ONLY worst cases, long inputs (the per-block overhead argument needs whole-block runs), "
      "gzip headers and dictionaries beyond the wrapper-length arithmetic.")
claim("C08",
      "Bounded: from the trailer modes with an arbitrary running checksum, arbitrary output bytes of the current call and arbitrary trailer bytes, StreamEnd is returned only if checking is disabled (validate(false)) or the trailer equals the checksum of the output folded onto the running value (Adler-32 big endian with the real adler32; CRC little endian + ISIZE = total mod 2^32); the header CRC verdict compares the low 16 bits of the running header CRC, which accumulates exactly the header bytes consumed, in order; inflate()'s epilogue folds every produced byte exactly once; Window::extend folds both kinds of check value over every byte exactly once and in stream order in all its size classes (shorter than, equal to, longer than the window; wrap).",
      'In the gzip/CRC and the window harnesses the checksum kernels are replaced by an order-sensitive byte-wise fold model (which bytes, from which start, in which order is the subject); that the real crc32/adler32 equal their definitions is C09. Outside: per-call outputs >= 32 KiB at the production window size (the len >= wsize branch is covered at W = 4/8: the code is parametric in the window length).')
claim("C10",
      "Bounded 2-safety by self-composition: the copy primitives give identical results at chunk width 8 and 32 and never depend on bytes "
      "beyond `filled`; Window::extend depends only on the slices; deflate reset: no stale scalar survives from an arbitrary previous state "
      "(and head[] is cleared); inflate reset likewise.",
      "Not decided: CPU-feature dispatch through intrinsics (compare256/adler/crc SIMD variants: Kani has no model of the intrinsics), the "
      "relaxed-atomic feature cache, anything about threads (Kani does not model concurrency), buffer address/alignment effects beyond the "
      "symbolic offsets inside the harness arrays.")
claim("C11",
      'Bounded: after Partial/Sync/Full/Block flush with room, deflate() appends the RFC marker (empty static block / byte-aligned 00 00 FF FF), Full flush clears the hash head and resets positions, duplicate flushes are refused without output; a flush starved of output inside the compress function is completed (marker included) by the next call with the same flush value, whatever flush preceded it; level 0: everything consumed is decodable from the output after a flush; level 1: the open block is closed, the prefix decodes to all input, marker follows, register byte aligned.',
      "Outside: deflate_slow's deferred literal and deflate_medium (levels >= 3): only their contract with deflate() is assumed.")
claim("C13",
      "Bounded, protocol only: zlib header announces FDICT + DICTID = stream.adler (big endian) for every level/strategy; the decoder goes "
      "Head -> DictId -> Dict and reports NeedDict with the big-endian identifier; inflateSetDictionary accepts exactly a dictionary whose "
      "Adler-32 (RFC recurrence) equals the identifier, rejects others with DataError, refuses wrapped streams outside Dict mode; "
      "inflateGetDictionary returns exactly the last min(total, W) bytes in stream order for every ring state.",
      "Outside: dictionary-assisted round trips (matches into the dictionary), deflateSetDictionary's hash insertion over >= 512 positions, "
      "dictionaries >= window size on the deflate side.")
claim("C14",
      'Bounded: reset == fresh for deflate (every scalar field, head[] cleared incl. a symbolic dirty entry, pending discarded, trees re-initialised, block_open) and inflate (reset_with_config from an arbitrary state vs a freshly constructed state, for every i32 windowBits); a new gzip member after an abandoned one starts its header fields from their first byte; a string field of the gzip header is captured from offset 0 whatever length an earlier use left behind; failed copies leave the destination without a state; the copy kernels (Pending::clone_to, SymBuf::clone_to, inflate Window::clone_to) reproduce contents and cursors.',
      "Outside: the success path of deflateCopy/inflateCopy as a whole (State is written into a u8 allocation: not encodable, DESIGN.md §1): 'copied streams behave identically and independently' is decided only kernel by kernel.")
claim("C15",
      "Bounded: inflate(): next/avail/total deltas equal bytes moved for every (avail_in, avail_out, flush) around a stored block, no "
      "underflow, BufError exactly when nothing moved or Finish could not complete; deflate level 0: cursor/total deltas exact incl. the "
      "direct copy; deflate() totals over header/marker/trailer calls; bit reader gives back exactly the unused whole bytes; inflateSync "
      "advances exactly past the marker.",
      "Outside: totals across long histories (follows from per-call exactness by induction, not decided); the one-shot helpers' "
      "length outputs (they go through init(), not encodable).")
claim("C16",
      "Bounded, rule tables transcribed from zlib.h / the vendored zlib-ng source: argument validation and status of inflatePrime, "
      "inflateSync, inflateSyncPoint, inflateValidate, inflateUndermine, inflateMark, inflateGetHeader, inflateResetKeep/Reset2 (every "
      "i32 windowBits), inflateSetDictionary, deflatePrime (every bits/value), deflateParams (every level), deflateTune, deflateSetHeader, "
      "deflatePending; none of them can abort.",
      "The oracle is my transcription of the rules (trusted base). Outside: data-movement equality with zlib-ng, multi-call programs, the "
      "libz-rs-sys NULL-pointer wrappers (thin, exercised by the pinned null.rs tests).")
claim("C18",
      "Bounded: the allocator shim for every misalignment of the user block (k < 64), size and alignment: pointer aligned and inside the block, stash word below it, exactly one zfree with the original pointer and the same opaque; oversized requests refused before zalloc; the default-allocator fallback always leaves a matched zalloc/zfree pair (every subset of callbacks supplied by the caller), which is what lets the shim's two halves agree; failed deflateCopy: MemError, one zalloc, no zfree, destination left without state; deflate::end / inflate::end on a typed state in every status release every block exactly once through the caller's zfree (counting allocator passed through opaque).",
      'Outside: balanced alloc/free over successful init/copy histories (those success paths are not encodable), the gz layer.')
claim("C19",
      'Bounded: inflateBack on a typed stream with a 256-byte window, concrete prefix (final fixed block, 1 or 9 literals, length-3 code, one concrete distance code per harness, all 32) + symbolic extra bits: no access outside the window (typed local object), documented status, too-far distances rejected with the literals still delivered, in-window matches produce the LZ77 bytes inflate would; after the window has wrapped (reduced instance: 16-byte window, back() takes every size from window.buffer_size()) every distance <= window is accepted and copies from the ring, larger ones are rejected; plus copy_match_back for every (filled, offset, length).',
      'Outside: dynamic blocks, inflate_fast_back (>= 15 input bytes), callback slicing into more than one slice, output-callback abort, production window sizes for the wrapped case.')
claim("C20",
      "Bounded: read side: every gzip header mode with capture buffers: text/time/xflags/os/extra_len/hcrc equal the stream's fields, extra/name/comment copied exactly up to the announced capacity (0..=4 inside canaried 8-byte buffers, or NULL) at the right offsets across calls and from offset 0 at field entry, absent fields reported absent, done == 1 only when the whole header was parsed (incl. header CRC verdict). Write side: deflateSetHeader only for gzip streams; the fixed 10 header bytes + trailer for a header without fields; flush_bytes (the field writer) for every field length/progress/pending room; extra, name and comment resumed after a full pending buffer continue from the byte where they stopped; a new member starts its fields from their first byte.",
      'Outside: write-side headers with several fields in one harness (out of memory), fields longer than the bounds (length-uniform loops/memcpys).')
claim("C09",
      "Bounded, scalar implementations only: CRC-32 byte and word tables and the braid table equal the bitwise definition for all indices; one naive step; crc32_braid's composition (inversions, prefix/words/suffix) on 0..=4 symbolic bytes; crc32_combine against the bitwise definition for |B| in 0..=2 (thorough 3, 4) with symbolic crc(A) and B; x^n mod p identity cases; Adler-32 closed form == RFC recurrence, adler32 on 0..=3 bytes (thorough: more) and the piecewise fold-copy; Engine B (MIR -> SMT, z3 + cvc5): adler32_combine never panics, returns both halves < 65521 and its low half equals the definition, for every (adler1, adler2, len2).",
      "Outside: AVX2/AVX-512/NEON Adler, PCLMULQDQ/VPCLMULQDQ folding (no model of the intrinsics in Kani); the braid word step and adler32_combine's high half == definition did not terminate in any solver and are not claimed; lengths beyond the bounds.")