"""Per-property claim texts for MANIFEST.json (kept next to the registry so they change together)."""

NOTES = ("Solver-based checking of the real code (DESIGN.md). Every claim is bounded: the bounds of each harness are in "
         "harness/registry.py and are repeated in each evidence file; nothing here is a proof. Exit 2 of a check = inconclusive "
         "(timeout / out of memory / harness does not compile against an edited tree / counter-example that does not replay).")

BASE_NOTE = ("Trusted base: Kani 0.68 + CBMC 6.11 + CaDiCaL; rustc's MIR as compiled by kani-compiler for x86_64 with "
             "debug assertions and overflow checks on (the dev profile); feature `std` off, so every cpu_features probe is false and the "
             "generic (non-SIMD-intrinsic) code paths are the ones encoded. Stubs (listed per harness in the evidence): panic_nounwind -> panic!, "
             "fmt::write -> Ok. ")

CLAIMS = {
    "C12": {"na": "oracle is the C library zlib-ng on whole compressor runs over long structured inputs; neither compressor is encodable "
                  "beyond a few bytes (DESIGN.md §1) and no C front end for zlib-ng could be linked into Kani in this image; "
                  "solver-based checking cannot decide it"},
    "C17": {"na": "gz.rs is a state machine over libc open/read/write/lseek (FFI, no model) around streams created through "
                  "inflateInit2/deflateInit2, whose success path is not encodable (State written into a u8 allocation: CBMC out of memory, "
                  "DESIGN.md §1); what remains after stubbing both is too thin to decide the property"},
}


def claim(pid, text, note, **kw):
    d = {"text": text, "note": BASE_NOTE + note}
    d.update(kw)
    CLAIMS[pid] = d


claim("C05",
      "Bounded model checking of the encoder's emission kernels against RFC 1951/1950: the bit writer packs every sequence of up to 4 "
      "emissions from every valid register state exactly as RFC 1951 3.1.1 prescribes; every literal, every (length, distance) pair and "
      "every block header is emitted with the RFC fixed code / extra bits (all 256 x 32768 pairs, decided symbolically); static tables "
      "equal the RFC tables. The solver ranges over all values inside each harness's bounds, which sampling cannot.",
      "Outside the claim: that match finders (longest_match, medium/slow) never propose a distance beyond max_dist; full-size dynamic trees; "
      "whole-stream composition beyond the kernels listed in the evidence.")
