//! KC9 — crc32_combine: combine(crc(A), crc(B), |B|) == crc(A || B) for concrete |B|, symbolic crc(A) and B (C09).
#![allow(dead_code, unused_imports, unused_variables, unused_mut, clippy::all)]
use super::*;
use crate::verif_kani::*;

fn combine_len<const L: usize>() {
    let crc_a: u32 = kani::any(); // CRC of an arbitrary prefix A
    let b: [u8; L] = kani::any();
    let whole = ref_crc32(crc_a, &b); // CRC-32 of A || B continued from crc(A): the definition
    let crc_b = ref_crc32(0, &b);
    assert!(crc32_combine(crc_a, crc_b, L as u64) == whole);
    // precomputed-operator form
    let op = crc32_combine_gen(L as u64);
    assert!(crc32_combine_op(crc_a, crc_b, op) == whole);
}

#[kani::proof]
#[kani::unwind(40)]
fn kc9_crc_combine_len0_1_2() {
    combine_len::<0>();
    combine_len::<1>();
    combine_len::<2>();
    kani::cover!(true);
}

#[kani::proof]
#[kani::unwind(40)]
fn kc9_crc_combine_len3_4() {
    combine_len::<3>();
    combine_len::<4>();
    kani::cover!(true);
}

/// multmodp: x^0 (0x80000000 in the reflected representation) is the identity on both sides
#[kani::proof]
#[kani::unwind(40)]
fn kc9_multmodp_identity() {
    let b: u32 = kani::any();
    assert!(multmodp(0x8000_0000, b) == b);
    kani::assume(b != 0);
    assert!(multmodp(b, 0x8000_0000) == b);
    kani::cover!(b == 0xedb8_8320);
}
