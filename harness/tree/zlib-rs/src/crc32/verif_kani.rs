//! KC9 — the dispatch around the CRC kernels (child of crc32.rs): whichever kernel `crc32()` / `Crc32Fold` select, the
//! start value reaches it and the result is the kernel's (C09: "continued from the start value", piecewise == whole).
//! The kernel itself (braid, decided by the harnesses in crc32/braid/verif_kani.rs) is replaced by a cheap order- and
//! start-sensitive fold; expected values are written as calls to the kernel, which is the model under CBMC and the real
//! function under a native replay.
#![allow(dead_code, unused_imports, unused_variables, unused_mut, clippy::all)]
use super::*;
use crate::verif_kani::*;

#[kani::proof]
#[kani::unwind(68)]
#[kani::stub(core::fmt::write, stub_fmt_write)]
#[kani::stub(core::panicking::panic_nounwind, stub_pn)]
#[kani::stub(core::panicking::panic_nounwind_fmt, stub_pnf)]
#[kani::stub(crate::crc32::braid::crc32_braid, stub_braid_model)]
fn kc9_crc32_dispatch_passes_the_start_value() {
    let start: u32 = kani::any();
    // below and at the length where crc32() switches from the direct kernel call to the folding state
    let short: [u8; 63] = kani::any();
    assert!(crc32(start, &short) == braid::crc32_braid::<5>(start, &short));
    let long: [u8; 64] = kani::any();
    assert!(crc32(start, &long) == braid::crc32_braid::<5>(start, &long), "64 bytes and more: the start value still counts");
    // piecewise through the folding state == whole
    let cut: usize = kani::any();
    kani::assume(cut <= 64);
    let mut f = Crc32Fold::new_with_initial(start);
    f.fold(&long[..cut], start);
    let mid = f.finish();
    assert!(mid == braid::crc32_braid::<5>(start, &long[..cut]));
    assert!(crc32(mid, &long[cut..]) == braid::crc32_braid::<5>(mid, &long[cut..]));
    kani::cover!(start != 0 && cut == 10);
}
