//! KC9 — CRC-32 tables and kernels against the bitwise definition (IEEE 802.3 reflected polynomial 0xEDB88320): C09.
#![allow(dead_code, unused_imports, unused_variables, unused_mut, clippy::all)]
use super::*;
use crate::verif_kani::*;

/// `steps` bitwise CRC shift steps applied to `c`
fn shift_steps(mut c: u32, steps: usize) -> u32 {
    let mut k = 0;
    while k < steps {
        c = if c & 1 != 0 { (c >> 1) ^ 0xedb8_8320 } else { c >> 1 };
        k += 1;
    }
    c
}

/// every entry of the byte table and of the word tables is the definition (j advanced by the right number of bit steps)
#[kani::proof]
#[kani::unwind(70)]
fn kc9_crc_tables() {
    let j: usize = kani::any();
    kani::assume(j < 256);
    assert!(CRC32_BYTE_TABLE[0][j] == shift_steps(j as u32, 8));
    let i: usize = kani::any();
    kani::assume(i < W);
    assert!(CRC32_WORD_TABLE[i][j] == shift_steps(j as u32, 8 * (W - i)));
    assert!(get_crc_table()[j] == shift_steps(j as u32, 8));
    kani::cover!(i == 7 && j == 255);
}

/// braid table for N = 5 (the instantiation `crc32()` uses)
#[kani::proof]
#[kani::unwind(330)]
fn kc9_crc_braid_table() {
    let j: usize = kani::any();
    kani::assume(j < 256);
    let i: usize = kani::any();
    kani::assume(i < W);
    assert!(Crc32BraidTable::<5>::TABLE[i][j] == shift_steps(j as u32, 8 * (W * 5 - i)));
    kani::cover!(i == 0 && j == 1);
}

/// one byte through the table-driven kernel == 8 bit steps of the definition, for every (crc, byte);
/// by induction over the bytes the naive kernel is CRC-32
#[kani::proof]
#[kani::unwind(10)]
fn kc9_crc_naive_step() {
    let crc: u32 = kani::any();
    let b: u8 = kani::any();
    let got = crc32_naive_inner(&[b], crc);
    assert!(got == shift_steps(crc ^ b as u32, 8));
    // two bytes: fold order
    let b2: u8 = kani::any();
    let got2 = crc32_naive_inner(&[b, b2], crc);
    assert!(got2 == shift_steps(shift_steps(crc ^ b as u32, 8) ^ b2 as u32, 8));
    assert!(crc32_naive_inner(&[], crc) == crc);
    kani::cover!(got == 0);
}

/// one machine word through the word kernel == its 8 bytes through the byte kernel, for every crc and three concrete
/// words (the fully symbolic word x crc equivalence, 96 XOR-dense input bits, did not terminate in 1800 s)
#[kani::proof]
#[kani::unwind(12)]
fn kc9_crc_word_step() {
    let crc: u32 = kani::any();
    let ws: [usize; 3] = [0, usize::MAX, 0x0123_4567_89ab_cdef];
    let mut i = 0;
    while i < 3 {
        let w = ws[i];
        let got = crc32_words_inner(&[w], crc, &[]);
        let want = crc32_naive_inner(&w.to_le_bytes(), crc);
        assert!(got == want);
        i += 1;
    }
    kani::cover!(crc == 0xffff_ffff);
}

/// `<[T]>::align_to` may return everything in the prefix ("it is permissible for the middle slice to be empty", std docs),
/// which is what it does when `align_offset` answers usize::MAX ("cannot be aligned", also permitted by its contract).
/// Kani's own model of the pointer arithmetic costs > 16 GB here, so the harness below fixes that permitted answer.
pub(crate) unsafe fn stub_align_offset_never<T>(_p: *const T, _a: usize) -> usize {
    usize::MAX
}

/// public entry point on short inputs: pre/post inversion, prefix -> words -> suffix composition with an empty word part:
/// crc32_braid == bitwise definition, symbolic start and data, lengths 0..=4
#[kani::proof]
#[kani::unwind(12)]
#[kani::stub(core::ptr::align_offset, stub_align_offset_never)]
fn kc9_crc_braid_short() {
    let start: u32 = kani::any();
    let data: [u8; 4] = kani::any();
    let len: usize = kani::any();
    kani::assume(len <= 4);
    let got = crc32_braid::<5>(start, &data[..len]);
    assert!(got == ref_crc32(start, &data[..len]));
    kani::cover!(len == 4);
    kani::cover!(len == 0);
}
