//! KC9 — Adler-32 (generic implementation) against RFC 1950, fixed lengths, symbolic data and start (C09).
#![allow(dead_code, unused_imports, unused_variables, unused_mut, clippy::all)]
use super::*;
use crate::verif_kani::*;

fn valid_start() -> u32 {
    let s: u32 = kani::any();
    kani::assume((s & 0xffff) < 65521 && (s >> 16) < 65521);
    s
}

/// closed form of the RFC recurrence for a fixed length (two `%`): a = a0 + sum x_i ; b = b0 + L*a0 + sum (L-i)*x_i
fn closed_form<const L: usize>(start: u32, data: &[u8; L]) -> u32 {
    let a0 = start & 0xffff;
    let b0 = start >> 16;
    let mut a = a0;
    let mut b = b0 + (L as u32) * a0;
    let mut i = 0;
    while i < L {
        a += data[i] as u32;
        b += ((L - i) as u32) * data[i] as u32;
        i += 1;
    }
    ((b % 65521) << 16) | (a % 65521)
}

fn fixed_len<const L: usize>() {
    let start = valid_start();
    let data: [u8; L] = kani::any();
    let got = adler32(start, &data);
    assert!(got == closed_form::<L>(start, &data));
    assert!(generic::adler32_rust(start, &data) == got);
}

/// the closed form is the RFC 1950 recurrence (one `%` per byte and sum) for small lengths
#[kani::proof]
#[kani::unwind(8)]
fn kc9_adler_closed_form_is_rfc() {
    let start = valid_start();
    let d3: [u8; 3] = kani::any();
    assert!(closed_form::<3>(start, &d3) == ref_adler32(start, &d3));
    let d0: [u8; 0] = [];
    assert!(closed_form::<0>(start, &d0) == start);
    kani::cover!(true);
}

#[kani::proof]
#[kani::unwind(8)]
fn kc9_adler_len_0_1_2_3() {
    fixed_len::<0>();
    fixed_len::<1>();
    fixed_len::<2>();
    fixed_len::<3>();
    kani::cover!(true);
}

#[kani::proof]
#[kani::unwind(10)]
fn kc9_adler_len_4_5() {
    fixed_len::<4>();
    fixed_len::<5>();
    kani::cover!(true);
}

#[kani::proof]
#[kani::unwind(20)]
fn kc9_adler_len_8() {
    fixed_len::<8>();
    kani::cover!(true);
}

#[kani::proof]
#[kani::unwind(20)]
fn kc9_adler_len_16() {
    fixed_len::<16>();
    kani::cover!(true);
}

#[kani::proof]
#[kani::unwind(20)]
fn kc9_adler_len_17() {
    fixed_len::<17>();
    kani::cover!(true);
}

/// piecewise == whole, through the fused copy used by the inflate window
#[kani::proof]
#[kani::unwind(10)]
fn kc9_adler_piecewise_fold_copy() {
    let start = valid_start();
    let data: [u8; 5] = kani::any();
    let cut: usize = kani::any();
    kani::assume(cut <= 5);
    let whole = adler32(start, &data);
    let mut dst = [0u8; 8];
    let p1 = adler32_fold_copy(start, &mut dst, &data[..cut]);
    let mut k = 0;
    while k < 5 {
        if k < cut {
            assert!(dst[k] == data[k]);
        }
        k += 1;
    }
    let p2 = adler32(p1, &data[cut..]);
    assert!(p2 == whole);
    assert!((whole & 0xffff) < 65521 && (whole >> 16) < 65521);
    kani::cover!(cut == 2);
}

/// The tail helpers reduce *whatever* sums their callers hand them: `adler32_len_16` is entered from `adler32_len_64` with a
/// low sum of up to NMAX * 255 + BASE (far above 2 * BASE) and any high sum below 2^32.  With an empty tail the result must be
/// the two sums modulo 65521, packed.  (Decides the final reduction for every accumulated value; the accumulation loops are
/// the fixed-length harnesses above.)
#[kani::proof]
#[kani::unwind(3)]
fn kc9_adler_tail_reduces_any_sum() {
    let adler: u32 = kani::any();
    let sum2: u32 = kani::any();
    kani::assume(adler <= 5552 * 255 + 65521);
    let got = generic::adler32_len_16(adler, &[], sum2);
    let lo = got & 0xffff;
    let hi = got >> 16;
    assert!(lo < 65521 && hi < 65521, "both halves are reduced");
    assert!(lo == adler % 65521 && hi == sum2 % 65521, "and congruent to the sums handed in");
    kani::cover!(adler >= 2 * 65521 && lo == 5);
    kani::cover!(sum2 == u32::MAX);
}
