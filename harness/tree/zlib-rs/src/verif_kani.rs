//! Common stubs shared by all harness modules (injected as `crate::verif_kani`).
//! Every stub used by a harness is part of that harness's claim and is listed in its evidence.
#![allow(dead_code, unused_imports, unused_variables, unused_mut)]

/// `assert_unsafe_precondition!` failures end in `panic_nounwind`; keep the check, drop std's panic runtime.
pub(crate) fn stub_pn(_m: &'static str) -> ! {
    panic!("UB precondition (panic_nounwind)")
}
pub(crate) fn stub_pnf(_f: core::fmt::Arguments<'_>, _b: bool) -> ! {
    panic!("UB precondition (panic_nounwind_fmt)")
}
/// Formatting is never the subject.
pub(crate) fn stub_fmt_write(_o: &mut dyn core::fmt::Write, _a: core::fmt::Arguments<'_>) -> core::fmt::Result {
    Ok(())
}
/// Model of `<[T]>::fill(0)` (only ever used with the value 0 in zlib-rs: head / sym_buf clears).
pub(crate) fn stub_fill_zero<T: Clone>(s: &mut [T], _v: T) {
    unsafe { core::ptr::write_bytes(s.as_mut_ptr(), 0u8, s.len()) };
}
/// Nondeterministic checksum (over-approximation) for harnesses whose subject is not the checksum value.
pub(crate) fn stub_crc_nondet(_s: u32, _b: &[u8]) -> u32 {
    kani::any()
}
pub(crate) fn stub_adler_nondet(_s: u32, _b: &[u8]) -> u32 {
    kani::any()
}

/// bitwise CRC-32 (IEEE 802.3 reflected), the definition
pub(crate) fn ref_crc32(start: u32, data: &[u8]) -> u32 {
    let mut c = !start;
    let mut i = 0;
    while i < data.len() {
        c ^= data[i] as u32;
        let mut k = 0;
        while k < 8 {
            c = if c & 1 != 0 { (c >> 1) ^ 0xedb8_8320 } else { c >> 1 };
            k += 1;
        }
        i += 1;
    }
    !c
}

/// Adler-32 recurrence of RFC 1950 (one `%` per byte and sum)
pub(crate) fn ref_adler32(start: u32, data: &[u8]) -> u32 {
    let mut a = start & 0xffff;
    let mut b = start >> 16;
    let mut i = 0;
    while i < data.len() {
        a = (a + data[i] as u32) % 65521;
        b = (b + a) % 65521;
        i += 1;
    }
    (b << 16) | a
}

/// Cheap order- and value-sensitive stand-in for crc32 (byte-wise fold, so chunked == whole like the real one).
/// Used where the subject is *which bytes* are folded into the header checksum, not the CRC value itself.
pub(crate) fn model_fold(start: u32, data: &[u8]) -> u32 {
    let mut c = start;
    let mut i = 0;
    while i < data.len() {
        c = c.rotate_left(5) ^ (data[i] as u32) ^ 0x9e37;
        i += 1;
    }
    c
}
pub(crate) fn stub_crc_model(s: u32, b: &[u8]) -> u32 {
    model_fold(s, b)
}

/// same stand-in for the braid kernel behind `Crc32Fold` (generic paths)
pub(crate) fn stub_braid_model<const N: usize>(start: u32, data: &[u8]) -> u32 {
    model_fold(start, data)
}

// NOTE on replay: `cargo kani playback` runs the harness natively and does not apply `#[kani::stub]`.  Harness
// assertions therefore never name a model function directly: expected values are written as calls to the stubbed
// function itself (`crc32(..)`, `adler32(..)`), which is the model under CBMC and the real function under replay.

/// `CStr::from_ptr` ends in the foreign function `strlen`, which Kani does not model: same contract, explicit loop.
pub(crate) unsafe fn stub_cstr_from_ptr<'a>(ptr: *const core::ffi::c_char) -> &'a core::ffi::CStr {
    let mut n = 0usize;
    while unsafe { *ptr.add(n) } != 0 {
        n += 1;
    }
    unsafe { core::ffi::CStr::from_bytes_with_nul_unchecked(core::slice::from_raw_parts(ptr as *const u8, n + 1)) }
}

/// `<[T]>::fill` as a plain element loop (bounded per harness through --unwindset).  With CBMC's field-sensitive arrays a
/// `write_bytes` of symbolic length is re-assigned field by field over the whole enclosing struct (symex does not finish),
/// while stores at concrete indices under a symbolic guard are cheap.
pub(crate) fn stub_fill_loop<T: Clone>(s: &mut [T], v: T) {
    let mut i = 0;
    while i < s.len() {
        s[i] = v.clone();
        i += 1;
    }
}
/// `<[u16]>::fill` as used by the code-length decoder: zero runs (codes 17/18, up to 138 elements) become one
/// `write_bytes` (no loop to unwind); a repeat of the previous non-zero length (code 16) is at most 6 elements.
pub(crate) fn stub_fill_u16_runs<T: Clone>(s: &mut [T], v: T) {
    assert!(core::mem::size_of::<T>() == 2);
    let v16: u16 = unsafe { core::mem::transmute_copy(&v) };
    if v16 == 0 {
        unsafe { core::ptr::write_bytes(s.as_mut_ptr(), 0u8, s.len()) };
    } else {
        assert!(s.len() <= 6, "a non-zero length is only ever repeated 3..=6 times");
        let mut i = 0;
        while i < s.len() {
            s[i] = v.clone();
            i += 1;
        }
    }
}
