//! KI7 — the real `inflate()` entry point (prologue/epilogue) on a typed stream: cursor and counter deltas,
//! BufError rule, window/checksum update folds every produced byte exactly once (C15, C04, C08, C02).
use super::*;

pub(crate) fn stub_adler_model(s: u32, b: &[u8]) -> u32 {
    model_fold(s, b)
}

/// `inflate()` resumed inside a stored block (the state a previous call left behind), final block, zlib or raw:
/// copies min(remaining, avail_in, avail_out) bytes, then (when the block completes and input suffices) verifies the trailer.
#[kani::proof]
#[kani::unwind(8)]
#[kani::stub(crate::inflate::inftrees::inflate_table, stub_table_unreachable)]
#[kani::stub(core::fmt::write, stub_fmt_write)]
#[kani::stub(core::panicking::panic_nounwind, stub_pn)]
#[kani::stub(core::panicking::panic_nounwind_fmt, stub_pnf)]
#[kani::stub(crate::inflate::inflate_fast_help, stub_fast_unreachable)]
#[kani::stub(crate::inflate::State::len_and_friends, stub_laf_suspends)]
#[kani::stub(crate::inflate::writer::Writer::copy_match, stub_copy_match_unreachable)]
#[kani::stub(crate::inflate::writer::Writer::extend_from_window, stub_efw_unreachable)]
#[kani::stub(<[u16]>::fill, stub_fill_unreachable)]
#[kani::stub(crate::adler32::adler32, stub_adler_model)]
fn ki7_inflate_copyblock() {
    const W: usize = 4;
    const NI: usize = 7;
    const CAP: usize = 4;
    let input: [u8; NI] = kani::any();
    let init: [u8; CAP + 2] = kani::any();
    let mut out = init;
    let mut win = [0u8; W + 64];
    let wrap: u8 = kani::any();
    kani::assume(wrap == 0 || wrap == 5 || wrap == 1);
    let mut state = typed_state(&mut win, wrap, Mode::CopyBlock);
    state.gzip_flags = if wrap == 0 { -1 } else { 0 };
    state.flags.update(Flags::IS_LAST_BLOCK, true);
    let remaining: usize = kani::any();
    kani::assume(remaining <= 5);
    state.length = remaining;
    let total0: usize = kani::any();
    kani::assume(total0 <= 1 << 40);
    state.total = total0;
    let ck0: u32 = kani::any();
    state.checksum = ck0;
    let n_in: u32 = kani::any();
    kani::assume(n_in as usize <= NI);
    let n_out: u32 = kani::any();
    kani::assume(n_out as usize <= CAP);
    let flush = any_flush();
    let tin0: u64 = kani::any();
    kani::assume(tin0 < 1 << 40);
    let mut strm = typed_stream(unsafe { &mut *(&mut state as *mut State) });
    strm.next_in = input.as_ptr() as *mut u8;
    strm.avail_in = n_in;
    strm.total_in = tin0 as _;
    strm.next_out = out.as_mut_ptr();
    strm.avail_out = n_out;
    strm.total_out = total0 as _;
    let rc = unsafe { inflate(&mut strm, flush) };
    // cursors, remaining-space counters, running totals: exact, no underflow
    assert!(strm.avail_in <= n_in && strm.avail_out <= n_out);
    let used = (n_in - strm.avail_in) as usize;
    let produced = (n_out - strm.avail_out) as usize;
    assert!(strm.next_in as usize == input.as_ptr() as usize + used);
    assert!(strm.next_out as usize == out.as_ptr() as usize + produced);
    assert!(strm.total_in as u64 == tin0 + used as u64);
    assert!(strm.total_out as usize == total0 + produced);
    // data movement of the stored block
    let mut copy = remaining;
    if copy > n_in as usize {
        copy = n_in as usize;
    }
    if copy > n_out as usize {
        copy = n_out as usize;
    }
    assert!(produced == copy);
    let mut i = 0;
    while i < CAP + 2 {
        if i < copy {
            assert!(out[i] == input[i]);
        } else {
            assert!(out[i] == init[i]);
        }
        i += 1;
    }
    let stops_at_type = matches!(flush, InflateFlush::Block | InflateFlush::Trees);
    let mode = strm.state.mode;
    if copy < remaining {
        // could not finish the block
        assert!(used == copy && matches!(mode, Mode::CopyBlock));
        if copy == 0 || matches!(flush, InflateFlush::Finish) {
            assert!(rc == ReturnCode::BufError, "nothing moved (or Finish could not complete)");
        } else {
            assert!(rc == ReturnCode::Ok);
        }
    } else if stops_at_type {
        assert!(used == copy && matches!(mode, Mode::Type));
        assert!(rc == if copy == 0 { ReturnCode::BufError } else { ReturnCode::Ok });
    } else if wrap == 0 {
        assert!(rc == ReturnCode::StreamEnd && used == copy && matches!(mode, Mode::Done));
    } else {
        let rest = n_in as usize - copy;
        if rest < 4 {
            assert!(used == n_in as usize && matches!(mode, Mode::Check));
            if (used == 0 && produced == 0) || matches!(flush, InflateFlush::Finish) {
                assert!(rc == ReturnCode::BufError);
            } else {
                assert!(rc == ReturnCode::Ok);
            }
        } else {
            let given = u32::from_be_bytes([input[copy], input[copy + 1], input[copy + 2], input[copy + 3]]);
            let expect = adler32(ck0, &input[..copy]);
            if wrap & 4 != 0 && given != expect {
                assert!(rc == ReturnCode::DataError && matches!(mode, Mode::Bad));
            } else {
                assert!(rc == ReturnCode::StreamEnd && used == copy + 4 && matches!(mode, Mode::Done));
            }
        }
    }
    // checksum: every produced byte folded exactly once when checking is on, never otherwise
    if !matches!(mode, Mode::Bad) {
        if wrap & 4 != 0 {
            assert!(strm.state.checksum == adler32(ck0, &input[..copy]));
        } else {
            assert!(strm.state.checksum == ck0);
        }
    }
    // history: the window holds the last min(copy, W) bytes produced (like zlib, a wrapped stream whose trailer is
    // verified in the same call does not record that call's output any more: the stream is over)
    if copy > 0 && (wrap == 0 || matches!(mode, Mode::CopyBlock | Mode::Type | Mode::Check)) {
        let have = strm.state.window.have();
        assert!(have == if copy < W { copy } else { W });
        let mut o = [0u8; W];
        let n = unsafe { get_dictionary(&strm, o.as_mut_ptr()) };
        assert!(n == have);
        let mut i = 0;
        while i < W {
            if i < have {
                assert!(o[i] == input[copy - have + i]);
            }
            i += 1;
        }
    }
    kani::cover!(rc == ReturnCode::StreamEnd && wrap == 5 && copy == 3);
    kani::cover!(rc == ReturnCode::BufError && matches!(flush, InflateFlush::Finish) && copy > 0);
    kani::cover!(rc == ReturnCode::DataError);
    kani::cover!(rc == ReturnCode::Ok && matches!(mode, Mode::Check));
    core::mem::forget(strm);
    core::mem::forget(state);
}

/// NULL buffers / terminal states: documented status, nothing moved
#[kani::proof]
#[kani::unwind(6)]
#[kani::stub(crate::inflate::inftrees::inflate_table, stub_table_unreachable)]
#[kani::stub(core::fmt::write, stub_fmt_write)]
#[kani::stub(core::panicking::panic_nounwind, stub_pn)]
#[kani::stub(core::panicking::panic_nounwind_fmt, stub_pnf)]
#[kani::stub(crate::inflate::inflate_fast_help, stub_fast_unreachable)]
#[kani::stub(crate::inflate::State::len_and_friends, stub_laf_suspends)]
#[kani::stub(crate::inflate::writer::Writer::copy_match, stub_copy_match_unreachable)]
#[kani::stub(crate::inflate::writer::Writer::extend_from_window, stub_efw_unreachable)]
#[kani::stub(<[u16]>::fill, stub_fill_unreachable)]
fn ki7_inflate_terminal() {
    let input: [u8; 4] = kani::any();
    let mut out = [0u8; 4];
    let mut win = [0u8; 4 + 64];
    let flush = any_flush();
    let null_out: bool = kani::any();
    let null_in: bool = kani::any();
    let n_in: u32 = kani::any();
    kani::assume(n_in <= 4);
    let mut m = 0;
    while m < 2 {
        let (mode, expect) = if m == 0 { (Mode::Done, ReturnCode::StreamEnd) } else { (Mode::Bad, ReturnCode::DataError) };
        let mut state = typed_state(&mut win, 0, mode);
        let mut strm = typed_stream(unsafe { &mut *(&mut state as *mut State) });
        strm.next_in = if null_in { core::ptr::null_mut() } else { input.as_ptr() as *mut u8 };
        strm.avail_in = n_in;
        strm.next_out = if null_out { core::ptr::null_mut() } else { out.as_mut_ptr() };
        strm.avail_out = 4;
        let rc = unsafe { inflate(&mut strm, flush) };
        if null_out || (null_in && n_in != 0) {
            assert!(rc == ReturnCode::StreamError);
        } else {
            assert!(rc == expect);
        }
        assert!(strm.avail_in == n_in && strm.avail_out == 4 && strm.total_in == 0 && strm.total_out == 0);
        core::mem::forget(strm);
        core::mem::forget(state);
        m += 1;
    }
    kani::cover!(null_in && n_in == 0 && !null_out);
}

/// zlib's `inflate_fast` documents the entry assumption `state->bits < 8`: on exit it gives back `bits >> 3` whole bytes to
/// the input, which are input bytes only if fewer than 8 bits were in the register when it was entered.  `inflatePrime` can
/// put up to 32 bits there that never came from `next_in`.  The contract stub asserts the entry assumption; the harness body
/// asserts what breaks without it: `next_in` stays inside the caller's buffer and `total_in` counts what was consumed.
pub(crate) unsafe fn stub_fast_entry_contract(s: &mut State, _start: usize) {
    assert!(s.bit_reader.bits_in_buffer() < 8, "inflate_fast entered with whole bytes in the bit register that did not come from the input");
    // nothing decoded here: the slow path that follows in the caller does the work
}

fn primed_then_fast_instance(primed_bits: u8) {
    let input = [0u8; 16];
    let mut out = [0xEEu8; 300];
    let mut win = [0u8; 8 + 64];
    let mut state = typed_state(&mut win, 0, Mode::Len);
    state.gzip_flags = -1;
    state.len_table = Table { codes: Codes::Fixed, bits: 9 };
    state.dist_table = Table { codes: Codes::Fixed, bits: 5 };
    state.flags.update(Flags::IS_LAST_BLOCK, true);
    // as left by inflatePrime (twice 16 bits for 32): the end-of-block code (seven 0 bits) and padding, all from the caller
    state.bit_reader.prime(primed_bits, 0);
    let mut strm = typed_stream(unsafe { &mut *(&mut state as *mut State) });
    strm.next_in = input.as_ptr() as *mut u8;
    strm.avail_in = 16;
    strm.total_in = 0;
    strm.next_out = out.as_mut_ptr();
    strm.avail_out = 300;
    strm.total_out = 0;
    let rc = unsafe { inflate(&mut strm, InflateFlush::NoFlush) };
    assert!(rc == ReturnCode::StreamEnd, "the block ends inside the primed bits");
    assert!(strm.next_in as usize >= input.as_ptr() as usize && strm.next_in as usize <= input.as_ptr() as usize + 16, "next_in stays inside the caller's buffer");
    assert!(strm.avail_in <= 16 && strm.total_in as usize == 16 - strm.avail_in as usize);
    assert!(strm.avail_out == 300 && out[0] == 0xEE);
    kani::cover!(strm.avail_in == 16);
    core::mem::forget(strm);
    core::mem::forget(state);
}

macro_rules! primed_fast_harness {
    ($name:ident, $bits:expr) => {
        #[kani::proof]
        #[kani::unwind(8)]
        #[kani::stub(crate::inflate::inftrees::inflate_table, stub_table_unreachable)]
        #[kani::stub(core::fmt::write, stub_fmt_write)]
        #[kani::stub(core::panicking::panic_nounwind, stub_pn)]
        #[kani::stub(core::panicking::panic_nounwind_fmt, stub_pnf)]
        #[kani::stub(crate::inflate::inflate_fast_help, stub_fast_entry_contract)]
        #[kani::stub(crate::inflate::writer::Writer::copy_match, stub_copy_match_unreachable)]
        #[kani::stub(crate::inflate::writer::Writer::extend_from_window, stub_efw_unreachable)]
        #[kani::stub(<[u16]>::fill, stub_fill_unreachable)]
        fn $name() {
            primed_then_fast_instance($bits);
        }
    };
}
primed_fast_harness!(ki7_inflate_primed_8_then_fast, 8);
primed_fast_harness!(ki7_inflate_primed_16_then_fast, 16);
primed_fast_harness!(ki7_inflate_primed_32_then_fast, 32);
