//! KI3 — Window::extend against a ring model, fused checksum, get_dictionary order.
use super::*;

fn ring_check<const W: usize>(window: &Window<'_>, buf: &[u8], a: &[u8], la: usize, b: &[u8], lb: usize) {
    let total = la + lb;
    let have = if total < W { total } else { W };
    assert!(window.have() == have);
    assert!(window.next() < W);
    assert!(have == W || window.next() == have);
    let mut i = 0;
    while i < W {
        if i < have {
            // i-th most recent byte
            let pos = (window.next() + W - 1 - i) % W;
            let idx = total - 1 - i;
            let expect = if idx < la { a[idx] } else { b[idx - la] };
            assert!(buf[pos] == expect);
        }
        i += 1;
    }
}

/// two consecutive extends with symbolic slices (covers len >= wsize, wrap, no-wrap, next == size), no checksum
#[kani::proof]
#[kani::unwind(14)]
#[kani::stub(core::fmt::write, stub_fmt_write)]
#[kani::stub(core::panicking::panic_nounwind, stub_pn)]
#[kani::stub(core::panicking::panic_nounwind_fmt, stub_pnf)]
fn ki3_window_extend_ring() {
    const W: usize = 8;
    let mut buf = [0u8; W + 64];
    let mut window = unsafe { Window::from_raw_parts(buf.as_mut_ptr(), W + 64) };
    let mut ck = 1u32;
    let mut fold = Crc32Fold::new();
    let a: [u8; 12] = kani::any();
    let la: usize = kani::any();
    kani::assume(la <= 12);
    let b: [u8; 12] = kani::any();
    let lb: usize = kani::any();
    kani::assume(lb <= 12);
    window.extend(&a[..la], 0, false, &mut ck, &mut fold);
    window.extend(&b[..lb], 0, false, &mut ck, &mut fold);
    assert!(ck == 1);
    ring_check::<W>(&window, &buf, &a, la, &b, lb);
    kani::cover!(la == 5 && lb == 6, "second extend wraps");
    kani::cover!(la == 3 && lb == 5, "next == size reset");
    kani::cover!(lb >= 8, "len >= wsize");
    // padding untouched
    let k: usize = kani::any();
    kani::assume(k >= W && k < W + 64);
    assert!(buf[k] == 0);
    core::mem::forget(window);
}

/// same with the Adler-32 fused into the copy (flags == 0, update_checksum): ring contents identical and
/// checksum' = Adler-32 (RFC 1950 recurrence) of the slice continued from the running value
#[kani::proof]
#[kani::unwind(14)]
#[kani::stub(core::fmt::write, stub_fmt_write)]
#[kani::stub(core::panicking::panic_nounwind, stub_pn)]
#[kani::stub(core::panicking::panic_nounwind_fmt, stub_pnf)]
fn ki3_window_extend_adler() {
    const W: usize = 4;
    let mut buf = [0u8; W + 64];
    let mut window = unsafe { Window::from_raw_parts(buf.as_mut_ptr(), W + 64) };
    let ck0: u32 = kani::any();
    kani::assume((ck0 & 0xffff) < 65521 && (ck0 >> 16) < 65521);
    let mut ck = ck0;
    let mut fold = Crc32Fold::new();
    let a: [u8; 6] = kani::any();
    let la: usize = kani::any();
    kani::assume(la <= 6);
    let b: [u8; 6] = kani::any();
    let lb: usize = kani::any();
    kani::assume(lb <= 6);
    window.extend(&a[..la], 0, true, &mut ck, &mut fold);
    let mid = ck;
    assert!(mid == ref_adler32(ck0, &a[..la]));
    window.extend(&b[..lb], 0, true, &mut ck, &mut fold);
    assert!(ck == ref_adler32(mid, &b[..lb]));
    ring_check::<W>(&window, &buf, &a, la, &b, lb);
    kani::cover!(la == 3 && lb == 3, "wrap with checksum");
    kani::cover!(lb == 6, "len >= wsize with checksum");
    core::mem::forget(window);
}

/// with the running check value fused into the copy (zlib: Adler-32 in `checksum`; gzip: CRC-32 in `crc_fold`): every byte of
/// both slices is folded exactly once, in stream order, from the running value — also when a slice is at least as long as
/// the window and is split into a part that is only folded and a part that is folded and kept.  The checksum kernels are the
/// cheap order-sensitive model (C09 decides the real ones); the ring contents are checked as in `ki3_window_extend_ring`.
#[kani::proof]
#[kani::unwind(14)]
#[kani::stub(core::fmt::write, stub_fmt_write)]
#[kani::stub(core::panicking::panic_nounwind, stub_pn)]
#[kani::stub(core::panicking::panic_nounwind_fmt, stub_pnf)]
#[kani::stub(crate::crc32::braid::crc32_braid, stub_braid_model)]
#[kani::stub(crate::adler32::adler32, super::ki7_inflate::stub_adler_model)]
fn ki3_window_extend_checksum_order() {
    const W: usize = 4;
    let mut buf = [0u8; W + 64];
    let mut window = unsafe { Window::from_raw_parts(buf.as_mut_ptr(), W + 64) };
    let gz: bool = kani::any();
    let ck0: u32 = kani::any();
    let mut ck = ck0;
    let mut fold = Crc32Fold::new_with_initial(ck0);
    let a: [u8; 7] = kani::any();
    let la: usize = kani::any();
    kani::assume(la <= 7);
    let b: [u8; 7] = kani::any();
    let lb: usize = kani::any();
    kani::assume(lb <= 7);
    window.extend(&a[..la], gz as i32, true, &mut ck, &mut fold);
    window.extend(&b[..lb], gz as i32, true, &mut ck, &mut fold);
    ring_check::<W>(&window, &buf, &a, la, &b, lb);
    core::mem::forget(window);
    if gz {
        assert!(ck == ck0);
        let want = crate::crc32::crc32(crate::crc32::crc32(ck0, &a[..la]), &b[..lb]);
        assert!(fold.finish() == want, "CRC-32 folded over both slices in stream order");
    } else {
        let want = crate::adler32::adler32(crate::adler32::adler32(ck0, &a[..la]), &b[..lb]);
        assert!(ck == want, "Adler-32 folded over both slices in stream order");
    }
    kani::cover!(gz && la == 7, "gzip, slice longer than the window");
    kani::cover!(!gz && lb == 6 && la == 3, "zlib, slice longer than the window after a partial fill");
    kani::cover!(gz && la == 3 && lb == 3, "gzip, wrap");
}

/// `inflate::get_dictionary` unrolls the ring to exactly the last `have` bytes in stream order (C13)
#[kani::proof]
#[kani::unwind(14)]
#[kani::stub(core::fmt::write, stub_fmt_write)]
#[kani::stub(core::panicking::panic_nounwind, stub_pn)]
#[kani::stub(core::panicking::panic_nounwind_fmt, stub_pnf)]
fn ki3_get_dictionary_order() {
    const W: usize = 8;
    let mut win = [0u8; W + 64];
    let mut state = typed_state(&mut win, 0, Mode::Type);
    let a: [u8; 12] = kani::any();
    let la: usize = kani::any();
    kani::assume(la <= 12);
    let b: [u8; 12] = kani::any();
    let lb: usize = kani::any();
    kani::assume(lb <= 12);
    let mut ck = 1u32;
    let mut fold = Crc32Fold::new();
    state.window.extend(&a[..la], 0, false, &mut ck, &mut fold);
    state.window.extend(&b[..lb], 0, false, &mut ck, &mut fold);
    let stream = typed_stream(unsafe { &mut *(&mut state as *mut State) });
    let mut out = [0xAAu8; W + 2];
    let n = unsafe { get_dictionary(&stream, out.as_mut_ptr()) };
    let total = la + lb;
    let have = if total < W { total } else { W };
    assert!(n == have);
    let mut i = 0;
    while i < W + 2 {
        if i < have {
            let idx = total - have + i;
            let expect = if idx < la { a[idx] } else { b[idx - la] };
            assert!(out[i] == expect);
        } else {
            assert!(out[i] == 0xAA);
        }
        i += 1;
    }
    // NULL destination only reports the length
    let n2 = unsafe { get_dictionary(&stream, core::ptr::null_mut()) };
    assert!(n2 == have);
    kani::cover!(have == W && la == 7 && lb == 4);
    core::mem::forget(stream);
    core::mem::forget(state);
}
