use super::*;
