//! KI5c — block layer: TypeDo (BFINAL/BTYPE), Stored/CopyBlock (LEN/NLEN, byte alignment, copy accounting), Table (C02, C03, C04, C15).
use super::*;

/// TypeDo from every bit offset: BFINAL/BTYPE decoded per RFC 1951 3.2.3; last block goes to the trailer.
/// The number of bits in the register and of input bytes is concrete per instance (10 instances), their values symbolic.
fn typedo_instance(nb: u8, n_in: usize) {
    let input: [u8; 1] = kani::any();
    let pv: u64 = kani::any();
    let mut out = [0u8; 4];
    let mut win = [0u8; 8 + 64];
    let mut state = typed_state(&mut win, 0, Mode::TypeDo);
    let was_last: bool = kani::any();
    state.flags.update(Flags::IS_LAST_BLOCK, was_last);
    state.flush = any_flush();
    let flush = state.flush;
    state.bit_reader.prime(nb, pv);
    let pv = pv & ((1u64 << nb) - 1);
    unsafe { state.bit_reader.update_slice(input.as_ptr(), n_in) };
    state.in_available = n_in;
    state.writer = unsafe { Writer::new_uninit(out.as_mut_ptr(), 0) };
    let rc = state.dispatch();
    let used = consumed(&state, input.as_ptr());
    let mode = state.mode;
    let bits_left = state.bit_reader.bits_in_buffer() as usize;
    let last_now = state.flags.contains(Flags::IS_LAST_BLOCK);
    core::mem::forget(state);
    assert!(used <= n_in);
    let all = pv | ((input[0] as u64) << nb);
    let avail = nb as usize + 8 * n_in;
    if was_last {
        // raw stream: trailer is empty, so this is the end of the stream; padding bits dropped
        assert!(rc == ReturnCode::StreamEnd && matches!(mode, Mode::Done) && used == 0 && bits_left == 0);
    } else if avail < 3 {
        assert!(rc == ReturnCode::Ok && matches!(mode, Mode::TypeDo) && used == n_in);
    } else {
        let bfinal = all & 1 != 0;
        let btype = (all >> 1) & 3;
        assert!(last_now == bfinal);
        assert!(used == if (nb as usize) < 3 { n_in } else { 0 });
        match btype {
            0 => assert!(rc == ReturnCode::Ok && matches!(mode, Mode::Stored) && bits_left % 8 == 0),
            1 => {
                assert!(rc == ReturnCode::Ok && bits_left == avail - 3);
                if matches!(flush, InflateFlush::Trees) {
                    assert!(matches!(mode, Mode::Len_));
                } else {
                    assert!(matches!(mode, Mode::Len));
                }
            }
            2 => assert!(rc == ReturnCode::Ok && matches!(mode, Mode::Table) && bits_left == avail - 3),
            _ => assert!(rc == ReturnCode::DataError && matches!(mode, Mode::Bad)),
        }
    }
    kani::cover!(avail < 3 || (!was_last && ((all >> 1) & 3) == 3));
    kani::cover!(avail < 3 || (!was_last && ((all >> 1) & 3) == 1));
    kani::cover!(was_last);
}

macro_rules! typedo_harness {
    ($name:ident, $nb:expr, $n_in:expr) => {
        #[kani::proof]
        #[kani::unwind(5)]
        #[kani::stub(crate::inflate::inftrees::inflate_table, stub_table_unreachable)]
        #[kani::stub(core::fmt::write, stub_fmt_write)]
        #[kani::stub(core::panicking::panic_nounwind, stub_pn)]
        #[kani::stub(core::panicking::panic_nounwind_fmt, stub_pnf)]
        #[kani::stub(crate::inflate::inflate_fast_help, stub_fast_unreachable)]
        #[kani::stub(crate::inflate::State::len_and_friends, stub_laf_suspends)]
        #[kani::stub(crate::inflate::writer::Writer::copy_match, stub_copy_match_unreachable)]
        #[kani::stub(crate::inflate::writer::Writer::extend_from_window, stub_efw_unreachable)]
        #[kani::stub(<[u16]>::fill, stub_fill_unreachable)]
        fn $name() {
            typedo_instance($nb, $n_in);
        }
    };
}
typedo_harness!(ki5c_typedo_b0_i0, 0, 0);
typedo_harness!(ki5c_typedo_b1_i0, 1, 0);
typedo_harness!(ki5c_typedo_b2_i0, 2, 0);
typedo_harness!(ki5c_typedo_b3_i0, 3, 0);
typedo_harness!(ki5c_typedo_b4_i0, 4, 0);
typedo_harness!(ki5c_typedo_b5_i0, 5, 0);
typedo_harness!(ki5c_typedo_b6_i0, 6, 0);
typedo_harness!(ki5c_typedo_b7_i0, 7, 0);
typedo_harness!(ki5c_typedo_b0_i1, 0, 1);
typedo_harness!(ki5c_typedo_b1_i1, 1, 1);

/// Stored block: header at any bit offset, LEN/NLEN complement, copy accounting with symbolic input/output sizes.
#[kani::proof]
#[kani::unwind(12)]
#[kani::stub(crate::inflate::inftrees::inflate_table, stub_table_unreachable)]
#[kani::stub(core::fmt::write, stub_fmt_write)]
#[kani::stub(core::panicking::panic_nounwind, stub_pn)]
#[kani::stub(core::panicking::panic_nounwind_fmt, stub_pnf)]
#[kani::stub(crate::inflate::inflate_fast_help, stub_fast_unreachable)]
#[kani::stub(crate::inflate::State::len_and_friends, stub_laf_suspends)]
#[kani::stub(crate::inflate::writer::Writer::copy_match, stub_copy_match_unreachable)]
#[kani::stub(crate::inflate::writer::Writer::extend_from_window, stub_efw_unreachable)]
#[kani::stub(<[u16]>::fill, stub_fill_unreachable)]
fn ki5c_stored() {
    const NI: usize = 8;
    const CAP: usize = 4;
    let input: [u8; NI] = kani::any();
    let n_in: usize = kani::any();
    kani::assume(n_in <= NI);
    let nb: u8 = kani::any();
    kani::assume(nb <= 7);
    let pv: u64 = kani::any();
    let init: [u8; CAP + 2] = kani::any();
    let mut out = init;
    let n_out: usize = kani::any();
    kani::assume(n_out <= CAP);
    let mut win = [0u8; 8 + 64];
    let mut state = typed_state(&mut win, 0, Mode::Stored);
    state.flags.update(Flags::IS_LAST_BLOCK, true); // the chain then ends in Done instead of the next block header
    let fl: bool = kani::any();
    state.flush = if fl { InflateFlush::Block } else { InflateFlush::NoFlush };
    state.bit_reader.prime(nb, pv);
    unsafe { state.bit_reader.update_slice(input.as_ptr(), n_in) };
    state.in_available = n_in;
    state.writer = unsafe { Writer::new_uninit(out.as_mut_ptr(), n_out) };
    state.out_available = n_out;
    let rc = state.dispatch();
    let used = consumed(&state, input.as_ptr());
    let produced = state.writer.len();
    let mode = state.mode;
    let rest = state.length;
    core::mem::forget(state);
    assert!(used <= n_in && produced <= n_out);
    if n_in < 4 {
        assert!(rc == ReturnCode::Ok && matches!(mode, Mode::Stored) && used == n_in && produced == 0);
    } else {
        let len = u16::from_le_bytes([input[0], input[1]]);
        let nlen = u16::from_le_bytes([input[2], input[3]]);
        if len != !nlen {
            assert!(rc == ReturnCode::DataError && matches!(mode, Mode::Bad) && produced == 0);
        } else {
            let len = len as usize;
            let mut copy = len;
            if copy > n_in - 4 {
                copy = n_in - 4;
            }
            if copy > n_out {
                copy = n_out;
            }
            assert!(produced == copy && used == 4 + copy);
            if copy < len {
                assert!(rc == ReturnCode::Ok && matches!(mode, Mode::CopyBlock) && rest == len - copy);
            } else if fl {
                assert!(rc == ReturnCode::Ok && matches!(mode, Mode::Type));
            } else {
                assert!(rc == ReturnCode::StreamEnd && matches!(mode, Mode::Done));
            }
            let mut i = 0;
            while i < CAP + 2 {
                if i < copy {
                    assert!(out[i] == input[4 + i]);
                } else {
                    assert!(out[i] == init[i]);
                }
                i += 1;
            }
        }
    }
    kani::cover!(rc == ReturnCode::StreamEnd && produced == 4);
    kani::cover!(matches!(mode, Mode::CopyBlock) && produced == 2 && n_out == 2);
    kani::cover!(rc == ReturnCode::DataError);
}

/// Stored block under Z_TREES: the call returns right after LEN/NLEN, and the state it saves is "copy LEN bytes" — the state
/// `ki5c_copyblock_resume` starts from — so the next call continues with the block's data (C04: flush-mode independence).
#[kani::proof]
#[kani::unwind(12)]
#[kani::stub(crate::inflate::inftrees::inflate_table, stub_table_unreachable)]
#[kani::stub(core::fmt::write, stub_fmt_write)]
#[kani::stub(core::panicking::panic_nounwind, stub_pn)]
#[kani::stub(core::panicking::panic_nounwind_fmt, stub_pnf)]
#[kani::stub(crate::inflate::inflate_fast_help, stub_fast_unreachable)]
#[kani::stub(crate::inflate::State::len_and_friends, stub_laf_suspends)]
#[kani::stub(crate::inflate::writer::Writer::copy_match, stub_copy_match_unreachable)]
#[kani::stub(crate::inflate::writer::Writer::extend_from_window, stub_efw_unreachable)]
#[kani::stub(<[u16]>::fill, stub_fill_unreachable)]
fn ki5c_stored_trees() {
    const NI: usize = 8;
    let input: [u8; NI] = kani::any();
    let n_in: usize = kani::any();
    kani::assume(n_in >= 4 && n_in <= NI);
    let nb: u8 = kani::any();
    kani::assume(nb <= 7);
    let pv: u64 = kani::any();
    let mut out = [0u8; 4];
    let mut win = [0u8; 8 + 64];
    let mut state = typed_state(&mut win, 0, Mode::Stored);
    state.flags.update(Flags::IS_LAST_BLOCK, kani::any());
    state.flush = InflateFlush::Trees;
    state.bit_reader.prime(nb, pv);
    unsafe { state.bit_reader.update_slice(input.as_ptr(), n_in) };
    state.in_available = n_in;
    state.writer = unsafe { Writer::new_uninit(out.as_mut_ptr(), 4) };
    state.out_available = 4;
    let rc = state.dispatch();
    let used = consumed(&state, input.as_ptr());
    let produced = state.writer.len();
    let len = u16::from_le_bytes([input[0], input[1]]);
    let nlen = u16::from_le_bytes([input[2], input[3]]);
    if len != !nlen {
        assert!(rc == ReturnCode::DataError && matches!(state.mode, Mode::Bad) && produced == 0);
    } else {
        assert!(rc == ReturnCode::Ok && used == 4 && produced == 0);
        assert!(matches!(state.mode, Mode::CopyBlock), "the next call copies the block's bytes");
        assert!(state.length == len as usize);
        assert!(state.bit_reader.bits_in_buffer() == 0);
    }
    kani::cover!(len == !nlen && len == 5);
    kani::cover!(rc == ReturnCode::DataError);
    core::mem::forget(state);
}

/// CopyBlock resumed with any remaining length: same accounting (the state a previous call left behind)
#[kani::proof]
#[kani::unwind(12)]
#[kani::stub(crate::inflate::inftrees::inflate_table, stub_table_unreachable)]
#[kani::stub(core::fmt::write, stub_fmt_write)]
#[kani::stub(core::panicking::panic_nounwind, stub_pn)]
#[kani::stub(core::panicking::panic_nounwind_fmt, stub_pnf)]
#[kani::stub(crate::inflate::inflate_fast_help, stub_fast_unreachable)]
#[kani::stub(crate::inflate::State::len_and_friends, stub_laf_suspends)]
#[kani::stub(crate::inflate::writer::Writer::copy_match, stub_copy_match_unreachable)]
#[kani::stub(crate::inflate::writer::Writer::extend_from_window, stub_efw_unreachable)]
#[kani::stub(<[u16]>::fill, stub_fill_unreachable)]
fn ki5c_copyblock_resume() {
    const NI: usize = 6;
    const CAP: usize = 6;
    let input: [u8; NI] = kani::any();
    let n_in: usize = kani::any();
    kani::assume(n_in <= NI);
    let init: [u8; CAP + 2] = kani::any();
    let mut out = init;
    let n_out: usize = kani::any();
    kani::assume(n_out <= CAP);
    let mut win = [0u8; 8 + 64];
    let mut state = typed_state(&mut win, 0, Mode::CopyBlock);
    state.flags.update(Flags::IS_LAST_BLOCK, true);
    state.flush = InflateFlush::Block;
    let remaining: usize = kani::any();
    kani::assume(remaining <= 65535);
    state.length = remaining;
    unsafe { state.bit_reader.update_slice(input.as_ptr(), n_in) };
    state.in_available = n_in;
    state.writer = unsafe { Writer::new_uninit(out.as_mut_ptr(), n_out) };
    state.out_available = n_out;
    let rc = state.dispatch();
    let used = consumed(&state, input.as_ptr());
    let produced = state.writer.len();
    let mut copy = remaining;
    if copy > n_in {
        copy = n_in;
    }
    if copy > n_out {
        copy = n_out;
    }
    assert!(rc == ReturnCode::Ok && used == copy && produced == copy && state.length == remaining - copy);
    assert!(matches!(state.mode, Mode::CopyBlock) == (copy < remaining));
    let mut i = 0;
    while i < CAP + 2 {
        if i < copy {
            assert!(out[i] == input[i]);
        } else {
            assert!(out[i] == init[i]);
        }
        i += 1;
    }
    kani::cover!(copy == 6 && remaining == 65535);
    kani::cover!(remaining == 0);
    core::mem::forget(state);
}

/// Table: HLIT/HDIST/HCLEN decoded per RFC 1951 3.2.7; more than 286 / 30 symbols rejected.
#[kani::proof]
#[kani::unwind(8)]
#[kani::stub(crate::inflate::inftrees::inflate_table, stub_table_unreachable)]
#[kani::stub(core::fmt::write, stub_fmt_write)]
#[kani::stub(core::panicking::panic_nounwind, stub_pn)]
#[kani::stub(core::panicking::panic_nounwind_fmt, stub_pnf)]
#[kani::stub(crate::inflate::inflate_fast_help, stub_fast_unreachable)]
#[kani::stub(crate::inflate::State::len_and_friends, stub_laf_suspends)]
#[kani::stub(crate::inflate::writer::Writer::copy_match, stub_copy_match_unreachable)]
#[kani::stub(crate::inflate::writer::Writer::extend_from_window, stub_efw_unreachable)]
#[kani::stub(<[u16]>::fill, stub_fill_unreachable)]
fn ki5c_table() {
    let input: [u8; 2] = kani::any();
    let n_in: usize = kani::any();
    let nb: u8 = kani::any();
    // at most 16 bits in total: after the 14 header bits fewer than 3 remain, so LenLens suspends at once
    kani::assume(n_in <= 2 && nb <= 7 && nb as usize + 8 * n_in <= 16);
    let pv: u64 = kani::any();
    let mut out = [0u8; 4];
    let mut win = [0u8; 8 + 64];
    let mut state = typed_state(&mut win, 0, Mode::Table);
    state.bit_reader.prime(nb, pv);
    let pv = pv & ((1u64 << nb) - 1);
    unsafe { state.bit_reader.update_slice(input.as_ptr(), n_in) };
    state.in_available = n_in;
    state.writer = unsafe { Writer::new_uninit(out.as_mut_ptr(), 0) };
    let rc = state.dispatch();
    let mode = state.mode;
    let all = pv | ((input[0] as u64) << nb) | ((input[1] as u64) << (nb + 8));
    let avail = nb as usize + 8 * n_in;
    if avail < 14 {
        assert!(rc == ReturnCode::Ok && matches!(mode, Mode::Table));
    } else {
        let nlen = (all & 31) as usize + 257;
        let ndist = ((all >> 5) & 31) as usize + 1;
        let ncode = ((all >> 10) & 15) as usize + 4;
        if nlen > 286 || ndist > 30 {
            assert!(rc == ReturnCode::DataError && matches!(mode, Mode::Bad));
        } else {
            assert!(rc == ReturnCode::Ok && matches!(mode, Mode::LenLens));
            assert!(state.nlen == nlen && state.ndist == ndist && state.ncode == ncode && state.have == 0);
        }
    }
    kani::cover!(rc == ReturnCode::DataError);
    kani::cover!(matches!(mode, Mode::LenLens) && state.nlen == 286 && state.ndist == 30);
    core::mem::forget(state);
}

/// LenLens: the 3-bit code-length-code lengths are stored in the RFC 1951 3.2.7 permutation order; suspension keeps progress.
#[kani::proof]
#[kani::unwind(12)]
#[kani::stub(crate::inflate::inftrees::inflate_table, stub_table_unreachable)]
#[kani::stub(core::fmt::write, stub_fmt_write)]
#[kani::stub(core::panicking::panic_nounwind, stub_pn)]
#[kani::stub(core::panicking::panic_nounwind_fmt, stub_pnf)]
#[kani::stub(crate::inflate::inflate_fast_help, stub_fast_unreachable)]
#[kani::stub(crate::inflate::State::len_and_friends, stub_laf_suspends)]
#[kani::stub(crate::inflate::writer::Writer::copy_match, stub_copy_match_unreachable)]
#[kani::stub(crate::inflate::writer::Writer::extend_from_window, stub_efw_unreachable)]
#[kani::stub(<[u16]>::fill, stub_fill_unreachable)]
fn ki5c_lenlens_order() {
    const RFC_ORDER: [usize; 19] = [16, 17, 18, 0, 8, 7, 9, 6, 10, 5, 11, 4, 12, 3, 13, 2, 14, 1, 15];
    let input: [u8; 2] = kani::any();
    let mut out = [0u8; 4];
    let mut win = [0u8; 8 + 64];
    let mut state = typed_state(&mut win, 0, Mode::LenLens);
    let ncode: usize = kani::any();
    let have0: usize = kani::any();
    // 16 bits = 5 complete lengths: never enough to finish (ncode - have0 >= 6), so the table builder is not reached
    kani::assume(ncode >= 4 && ncode <= 19 && have0 <= 19 && have0 + 6 <= ncode);
    state.ncode = ncode;
    state.have = have0;
    state.nlen = 257;
    state.ndist = 1;
    unsafe { state.bit_reader.update_slice(input.as_ptr(), 2) };
    state.in_available = 2;
    state.writer = unsafe { Writer::new_uninit(out.as_mut_ptr(), 0) };
    let rc = state.dispatch();
    assert!(rc == ReturnCode::Ok && matches!(state.mode, Mode::LenLens));
    assert!(state.have == have0 + 5 && consumed(&state, input.as_ptr()) == 2);
    let all = input[0] as u32 | (input[1] as u32) << 8;
    let mut k = 0;
    while k < 5 {
        assert!(state.lens[RFC_ORDER[have0 + k]] == ((all >> (3 * k)) & 7) as u16);
        k += 1;
    }
    kani::cover!(have0 == 13);
    core::mem::forget(state);
}

/// CodeLens: run-length decoding of the literal/length + distance code lengths (RFC 1951 3.2.7) with a concrete
/// code-length code {0:2, 1:2, 2:3, 16:3, 17:3, 18:3 bits}, symbolic input bits and symbolic progress near the end of the
/// sequence: the decoder stores exactly the lengths a reference RLE decoder stores, rejects exactly "repeat with no previous
/// length", "repeat past HLIT+HDIST" and "missing end-of-block", and suspends without losing progress.
pub(crate) fn stub_table_ok(
    _codetype: inftrees::CodeType,
    _lens: &[u16],
    _table: &mut [Code],
    _bits: usize,
    _work: &mut [u16],
) -> inftrees::InflateTable {
    inftrees::InflateTable::Success { root: 1, used: 2 }
}

pub(crate) fn install_clen_code(state: &mut State<'_>) {
    // index = code bits LSB-first (first transmitted bit = most significant code bit)
    let t: [(u8, u16); 8] = [(2, 0), (3, 2), (2, 1), (3, 17), (2, 0), (3, 16), (2, 1), (3, 18)];
    let mut i = 0;
    while i < 8 {
        state.codes_codes[i] = Code { op: 0, bits: t[i].0, val: t[i].1 };
        i += 1;
    }
    state.len_table = Table { codes: Codes::Codes, bits: 3 };
}

/// One run-length item (code 16, 17 or 18) of the code-length sequence.  The 3-bit code is concrete (R11) and sits in the bit
/// register together with `KBITS` of its extra bits; the remaining extra bits come from `N_IN` symbolic input bytes.  `R`
/// lengths are still outstanding.  With all bits present: exactly `rep` copies are stored, nothing beyond them, a run ending
/// exactly at HLIT+HDIST is accepted, one more is rejected.  With bits missing: the call suspends and the register, the progress
/// counter and the stored lengths are untouched (so the resumed call sees the whole item again).
fn codelens_item<const SYM: u16, const R: usize, const KBITS: u32, const N_IN: usize, const X: u8>() {
    const NLEN: usize = 257;
    const NDIST: usize = 30;
    const TOTAL: usize = NLEN + NDIST;
    let (code_bits, extra, base): (u64, u32, usize) = match SYM {
        16 => (5, 2, 3),
        17 => (3, 3, 3),
        _ => (7, 7, 11),
    };
    // the extra bits are concrete per instance: a symbolic repeat count makes `have` symbolic for the next item, and every
    // store `lens[have] = ..` then re-assigns the whole field-sensitive decoder state (symex does not finish)
    let input: [u8; 1] = [X];
    let mut out = [0u8; 4];
    let mut win = [0u8; 8 + 64];
    let mut state = typed_state(&mut win, 0, Mode::CodeLens);
    install_clen_code(&mut state);
    state.nlen = NLEN;
    state.ndist = NDIST;
    let have0 = TOTAL - R;
    state.have = have0;
    let prev: u16 = kani::any();
    kani::assume(prev <= 2);
    state.lens[have0 - 1] = prev;
    let eob: u16 = kani::any();
    kani::assume(eob <= 2);
    if have0 > 256 {
        state.lens[256] = eob;
        if have0 - 1 == 256 {
            kani::assume(eob == prev);
        }
    }
    // canaries: the outstanding slots and the one after them start as 0x0909 (never a value this code stores)
    let mut k = have0;
    while k <= TOTAL {
        state.lens[k] = 0x0909;
        k += 1;
    }
    let xreg: u64 = if KBITS == 0 { 0 } else { kani::any() };
    kani::assume(xreg < (1 << KBITS));
    if KBITS == 0 {
        state.bit_reader.prime(3, code_bits); // syntactically concrete register (R11)
    } else {
        state.bit_reader.prime(3 + KBITS as u8, code_bits | (xreg << 3));
    }
    unsafe { state.bit_reader.update_slice(input.as_ptr(), N_IN) };
    state.in_available = N_IN;
    state.writer = unsafe { Writer::new_uninit(out.as_mut_ptr(), 0) };
    // Z_TREES: the call returns right after the tables are built
    state.flush = InflateFlush::Trees;
    let rc = state.dispatch();
    let complete = KBITS as usize + 8 * N_IN >= extra as usize;
    if !complete {
        // the extra bits are missing: suspend; nothing of the item may be consumed
        assert!(rc == ReturnCode::Ok && matches!(state.mode, Mode::CodeLens));
        assert!(state.have == have0);
        assert!(state.bit_reader.bits_in_buffer() as u32 == 3 + KBITS + 8 * N_IN as u32, "an incomplete item must stay in the bit register");
        assert!(state.bit_reader.hold() & 7 == code_bits && (state.bit_reader.hold() >> 3) & ((1 << KBITS) - 1) == xreg);
        assert!(state.lens[have0] == 0x0909);
    } else {
        let all = xreg | ((input[0] as u64) << KBITS);
        let rep = base + (all & ((1 << extra) - 1)) as usize;
        let val = if SYM == 16 { prev } else { 0 };
        if have0 + rep > TOTAL {
            assert!(rc == ReturnCode::DataError && matches!(state.mode, Mode::Bad), "repeat past HLIT+HDIST is rejected");
        } else {
            // stored exactly `rep` copies, nothing after them
            let j: usize = kani::any();
            kani::assume(j < rep);
            assert!(state.lens[have0 + j] == val);
            // what is left of the input byte after the extra bits is zero: each further pair of bits is the code `00` = "length 0"
            let leftover = 8 * N_IN as u32 - extra;
            let more = if have0 + rep < TOTAL && leftover >= 2 { 1 } else { 0 }; // instances leave at most one slot open
            assert!(have0 + rep + more == TOTAL || (have0 + rep + 1 == TOTAL && leftover < 2));
            if have0 + rep + more == TOTAL {
                if more == 1 {
                    assert!(state.lens[TOTAL - 1] == 0);
                }
                assert!(state.lens[TOTAL] == 0x0909, "nothing stored past HLIT+HDIST");
                let eob_len = if have0 > 256 { eob } else { val };
                if eob_len == 0 {
                    assert!(rc == ReturnCode::DataError && matches!(state.mode, Mode::Bad), "missing end-of-block code");
                } else {
                    assert!(rc == ReturnCode::Ok && matches!(state.mode, Mode::Len_), "a run may end exactly at HLIT+HDIST");
                    assert!(state.have == TOTAL);
                }
            } else {
                // one bit left: not a whole code, the next item suspends
                assert!(rc == ReturnCode::Ok && matches!(state.mode, Mode::CodeLens) && state.have == have0 + rep);
                assert!(state.lens[have0 + rep] == 0x0909);
            }
        }
    }
    kani::cover!(prev == 2 && eob == 1, "harness reaches its end");
    core::mem::forget(state);
}

macro_rules! codelens_harness {
    ($name:ident, $sym:expr, $r:expr, $n_in:expr, $x:expr) => {
        #[kani::proof]
        #[kani::unwind(14)]
        #[kani::stub(crate::inflate::inftrees::inflate_table, stub_table_ok)]
        #[kani::stub(core::fmt::write, stub_fmt_write)]
        #[kani::stub(core::panicking::panic_nounwind, stub_pn)]
        #[kani::stub(core::panicking::panic_nounwind_fmt, stub_pnf)]
        #[kani::stub(crate::inflate::inflate_fast_help, stub_fast_unreachable)]
        #[kani::stub(crate::inflate::State::len_and_friends, stub_laf_suspends)]
        #[kani::stub(crate::inflate::writer::Writer::copy_match, stub_copy_match_unreachable)]
        #[kani::stub(crate::inflate::writer::Writer::extend_from_window, stub_efw_unreachable)]
        #[kani::stub(<[u16]>::fill, stub_fill_loop)]
        fn $name() {
            codelens_item::<$sym, $r, 0, $n_in, $x>();
        }
    };
}
// (code, lengths outstanding, input bytes, value of the extra bits).  The register holds exactly the concrete code (a symbolic
// register makes the table entry symbolic and every arm of the item decoder live: symex did not finish in 15 min).
// one short of / exactly at / one past HLIT+HDIST:
codelens_harness!(ki5c_codelens_16_short, 16, 5, 1, 1);
codelens_harness!(ki5c_codelens_16_exact, 16, 5, 1, 2);
codelens_harness!(ki5c_codelens_16_over, 16, 5, 1, 3);
codelens_harness!(ki5c_codelens_17_short, 17, 7, 1, 3);
codelens_harness!(ki5c_codelens_17_exact, 17, 7, 1, 4);
codelens_harness!(ki5c_codelens_17_over, 17, 7, 1, 5);
codelens_harness!(ki5c_codelens_18_short, 18, 20, 1, 8);
codelens_harness!(ki5c_codelens_18_exact, 18, 20, 1, 9);
codelens_harness!(ki5c_codelens_18_over, 18, 20, 1, 10);
codelens_harness!(ki5c_codelens_16_suspend, 16, 5, 0, 0);
codelens_harness!(ki5c_codelens_17_suspend, 17, 7, 0, 0);
codelens_harness!(ki5c_codelens_18_suspend, 18, 20, 0, 0);
