//! KI5a/KI5b — zlib and gzip header modes, header capture within announced capacities (C02, C03, C08, C13, C20).
use super::*;

fn head_ref<'a>(h: &mut gz_header) -> Option<&'a mut gz_header> {
    Some(unsafe { &mut *(h as *mut gz_header) })
}

/// gzip fixed part: Flags -> Time -> Os -> ExLen (-> ... -> Type when no optional field is announced)
#[kani::proof]
#[kani::unwind(14)]
#[kani::stub(crate::inflate::inftrees::inflate_table, stub_table_unreachable)]
#[kani::stub(core::fmt::write, stub_fmt_write)]
#[kani::stub(core::panicking::panic_nounwind, stub_pn)]
#[kani::stub(core::panicking::panic_nounwind_fmt, stub_pnf)]
#[kani::stub(crate::crc32::crc32, stub_crc_model)]
#[kani::stub(crate::inflate::State::len_and_friends, stub_laf_suspends)]
#[kani::stub(crate::inflate::writer::Writer::copy_match, stub_copy_match_unreachable)]
#[kani::stub(crate::inflate::writer::Writer::extend_from_window, stub_efw_unreachable)]
#[kani::stub(<[u16]>::fill, stub_fill_unreachable)]
fn ki5b_fixed_part() {
    const NI: usize = 10;
    let input: [u8; NI] = kani::any();
    let n_in: usize = kani::any();
    kani::assume(n_in <= NI);
    let mut head = gz_header::default();
    let with_head: bool = kani::any();
    head.done = 0;
    let mut out = [0u8; 4];
    let mut win = [0u8; 8 + 64];
    let wrap: u8 = kani::any();
    kani::assume(wrap == 2 || wrap == 6);
    let mut state = typed_state(&mut win, wrap, Mode::Flags);
    if with_head {
        state.head = head_ref(&mut head);
    }
    let ck0: u32 = kani::any();
    state.checksum = ck0;
    state.flush = InflateFlush::Block; // suspend at Type
    unsafe { state.bit_reader.update_slice(input.as_ptr(), n_in) };
    state.in_available = n_in;
    state.writer = unsafe { Writer::new_uninit(out.as_mut_ptr(), 4) };
    let rc = state.dispatch();
    let used = consumed(&state, input.as_ptr());
    assert!(used <= n_in);
    assert!(state.writer.len() == 0);
    let flg = input[1];
    let bad_method = input[0] != 8;
    let bad_flags = flg & 0xe0 != 0;
    let mode = state.mode;
    let ck_after = state.checksum;
    let bits_left = state.bit_reader.bits_in_buffer() as usize;
    core::mem::forget(state);
    // header CRC: exactly the header bytes of completed fields, in order, are folded in (when requested and checking is on);
    // bytes of a partially read fixed field are still in the bit register
    if matches!(mode, Mode::Flags | Mode::Time | Mode::Os | Mode::ExLen | Mode::Extra | Mode::Name | Mode::Comment | Mode::HCrc) {
        let folded = used - bits_left / 8;
        if n_in >= 2 && flg & 2 != 0 && wrap & 4 != 0 {
            assert!(ck_after == crc32(ck0, &input[..folded]));
        } else {
            assert!(ck_after == ck0);
        }
    }
    if n_in < 2 {
        assert!(rc == ReturnCode::Ok && matches!(mode, Mode::Flags) && used == n_in);
    } else if bad_method || bad_flags {
        assert!(rc == ReturnCode::DataError && matches!(mode, Mode::Bad));
    } else {
        // the only other rejection in the header is the header-CRC verdict (CRC value nondeterministic here)
        if rc != ReturnCode::Ok {
            assert!(rc == ReturnCode::DataError && matches!(mode, Mode::Bad));
            assert!(flg & 2 != 0 && wrap & 4 != 0 && n_in >= 10);
        }
        if with_head {
            assert!(head.text == (flg & 1) as i32);
            if n_in >= 6 {
                assert!(head.time as u32 == u32::from_le_bytes([input[2], input[3], input[4], input[5]]));
            }
            if n_in >= 8 {
                assert!(head.xflags == input[6] as i32 && head.os == input[7] as i32);
            }
            if flg & 4 != 0 && n_in >= 10 {
                assert!(head.extra_len == u16::from_le_bytes([input[8], input[9]]) as u32);
            }
            // completion is signalled only once the whole header was parsed
            assert!((head.done == 1) == matches!(mode, Mode::Type));
            if head.done == 1 {
                assert!(head.hcrc == ((flg >> 1) & 1) as i32);
                // fields absent from the stream are reported absent
                assert!(flg & 4 != 0 || head.extra.is_null());
                assert!(flg & 8 != 0 || head.name.is_null());
                assert!(flg & 16 != 0 || head.comment.is_null());
            }
        }
        if matches!(mode, Mode::Type) {
            assert!(n_in >= 8 && used >= 8);
            assert!(flg & 0x1e != 0 || used == 8);
        }
    }
    kani::cover!(with_head && head.done == 1);
    kani::cover!(rc == ReturnCode::DataError && !bad_method);
    kani::cover!(flg & 4 != 0 && n_in == 10 && rc == ReturnCode::Ok);
}

/// Extra field: copied only up to extra_max, at the right offsets, across calls (symbolic progress `length`)
#[kani::proof]
#[kani::unwind(14)]
#[kani::stub(crate::inflate::inftrees::inflate_table, stub_table_unreachable)]
#[kani::stub(core::fmt::write, stub_fmt_write)]
#[kani::stub(core::panicking::panic_nounwind, stub_pn)]
#[kani::stub(core::panicking::panic_nounwind_fmt, stub_pnf)]
#[kani::stub(crate::crc32::crc32, stub_crc_nondet)]
#[kani::stub(crate::inflate::State::len_and_friends, stub_laf_suspends)]
#[kani::stub(crate::inflate::writer::Writer::copy_match, stub_copy_match_unreachable)]
#[kani::stub(crate::inflate::writer::Writer::extend_from_window, stub_efw_unreachable)]
#[kani::stub(<[u16]>::fill, stub_fill_unreachable)]
fn ki5b_extra() {
    const NI: usize = 6;
    let input: [u8; NI] = kani::any();
    let n_in: usize = kani::any();
    kani::assume(n_in <= NI);
    let init: [u8; 8] = kani::any();
    let mut extra = init; // capacity 6 announced at most 4, bytes 6..8 are canaries too
    let extra_max: u32 = kani::any();
    kani::assume(extra_max <= 4);
    let null_extra: bool = kani::any();
    let mut head = gz_header::default();
    head.extra = if null_extra { core::ptr::null_mut() } else { extra.as_mut_ptr() };
    head.extra_max = extra_max;
    let total_len: usize = kani::any(); // XLEN of the stream
    let remaining: usize = kani::any(); // still to be read
    kani::assume(total_len <= 9 && remaining <= total_len && remaining >= 1);
    head.extra_len = total_len as u32;
    let mut out = [0u8; 4];
    let mut win = [0u8; 8 + 64];
    let mut state = typed_state(&mut win, 6, Mode::Extra);
    state.gzip_flags = 0x0408; // FEXTRA only
    state.length = remaining;
    state.head = head_ref(&mut head);
    state.flush = InflateFlush::Block;
    unsafe { state.bit_reader.update_slice(input.as_ptr(), n_in) };
    state.in_available = n_in;
    state.writer = unsafe { Writer::new_uninit(out.as_mut_ptr(), 4) };
    let rc = state.dispatch();
    let used = consumed(&state, input.as_ptr());
    let take = if remaining < n_in { remaining } else { n_in };
    assert!(rc == ReturnCode::Ok);
    assert!(used == take);
    let mode = state.mode;
    let len_after = state.length;
    core::mem::forget(state);
    if take < remaining {
        assert!(matches!(mode, Mode::Extra) && len_after == remaining - take);
        assert!(head.done == 0);
    } else {
        assert!(matches!(mode, Mode::Type) && head.done == 1);
    }
    let written_before = total_len - remaining;
    let mut i = 0;
    while i < 8 {
        let in_field = i >= written_before && i < written_before + take && (i as u32) < extra_max && !null_extra;
        if in_field {
            assert!(extra[i] == input[i - written_before]);
        } else {
            assert!(extra[i] == init[i]);
        }
        i += 1;
    }
    kani::cover!(!null_extra && extra_max == 4 && written_before == 2 && take == 5, "field longer than capacity, second call");
    kani::cover!(null_extra && matches!(mode, Mode::Type));
}

/// A string field starts at offset 0 of the caller's buffer: whatever `length` was left behind by earlier work on the same
/// stream object (a previous member, an abandoned block before inflateReset), an absent extra field / name still hands the
/// next field `length == 0` — the entry invariant `ki5b_name` / `ki5b_comment` start from.
fn field_entry_length(sel: bool) {
    // sel false: Extra (absent) -> Name;  true: Name (absent) -> Comment   (concrete per harness: R11)
    let mut nbuf = [0u8; 4];
    let mut head = gz_header::default();
    head.name = nbuf.as_mut_ptr();
    head.name_max = 4;
    head.comment = nbuf.as_mut_ptr();
    head.comm_max = 4;
    let mut out = [0u8; 4];
    let mut win = [0u8; 8 + 64];
    let mut state = typed_state(&mut win, 6, if sel { Mode::Name } else { Mode::Extra });
    state.gzip_flags = if sel { 0x1008 } else { 0x0808 };
    let hcrc: bool = kani::any();
    if hcrc {
        state.gzip_flags |= 0x0200;
    }
    let stale: usize = kani::any();
    state.length = stale;
    state.head = head_ref(&mut head);
    state.flush = InflateFlush::NoFlush;
    let input = [0u8; 1];
    unsafe { state.bit_reader.update_slice(input.as_ptr(), 0) };
    state.in_available = 0;
    state.writer = unsafe { Writer::new_uninit(out.as_mut_ptr(), 4) };
    let rc = state.dispatch();
    assert!(rc == ReturnCode::Ok);
    assert!(if sel { matches!(state.mode, Mode::Comment) } else { matches!(state.mode, Mode::Name) });
    assert!(state.length == 0, "the next string field is stored from offset 0");
    kani::cover!(stale > 4 && hcrc);
    core::mem::forget(state);
}
macro_rules! field_entry_harness {
    ($name:ident, $sel:expr) => {
        #[kani::proof]
        #[kani::unwind(6)]
        #[kani::stub(crate::inflate::inftrees::inflate_table, stub_table_unreachable)]
        #[kani::stub(core::fmt::write, stub_fmt_write)]
        #[kani::stub(core::panicking::panic_nounwind, stub_pn)]
        #[kani::stub(core::panicking::panic_nounwind_fmt, stub_pnf)]
        #[kani::stub(crate::crc32::crc32, stub_crc_nondet)]
        #[kani::stub(crate::inflate::State::len_and_friends, stub_laf_suspends)]
        #[kani::stub(crate::inflate::writer::Writer::copy_match, stub_copy_match_unreachable)]
        #[kani::stub(crate::inflate::writer::Writer::extend_from_window, stub_efw_unreachable)]
        #[kani::stub(<[u16]>::fill, stub_fill_unreachable)]
        fn $name() {
            field_entry_length($sel);
        }
    };
}
field_entry_harness!(ki5b_name_entry_length, false);
field_entry_harness!(ki5b_comment_entry_length, true);

fn string_field(mode_sel: bool) {
    // mode_sel: false = Name, true = Comment
    const NI: usize = 6;
    let input: [u8; NI] = kani::any();
    let n_in: usize = kani::any();
    kani::assume(n_in <= NI);
    let init: [u8; 8] = kani::any();
    let mut buf = init;
    let max: u32 = kani::any();
    kani::assume(max <= 4);
    let null_buf: bool = kani::any();
    let mut head = gz_header::default();
    let p = if null_buf { core::ptr::null_mut() } else { buf.as_mut_ptr() };
    if mode_sel {
        head.comment = p;
        head.comm_max = max;
    } else {
        head.name = p;
        head.name_max = max;
    }
    let mut out = [0u8; 4];
    let mut win = [0u8; 8 + 64];
    let mut state = typed_state(&mut win, 6, if mode_sel { Mode::Comment } else { Mode::Name });
    state.gzip_flags = if mode_sel { 0x1008 } else { 0x0808 };
    let already: usize = kani::any(); // bytes stored by earlier calls (invariant: <= max)
    kani::assume(already <= max as usize);
    state.length = if null_buf { 0 } else { already };
    let hcrc: bool = kani::any();
    if hcrc {
        state.gzip_flags |= 0x0200;
    }
    let ck0: u32 = kani::any();
    state.checksum = ck0;
    state.head = head_ref(&mut head);
    state.flush = InflateFlush::Block;
    unsafe { state.bit_reader.update_slice(input.as_ptr(), n_in) };
    state.in_available = n_in;
    state.writer = unsafe { Writer::new_uninit(out.as_mut_ptr(), 4) };
    let rc = state.dispatch();
    let used = consumed(&state, input.as_ptr());
    // position of the terminator in the supplied bytes
    let mut z = n_in;
    let mut i = NI;
    while i > 0 {
        i -= 1;
        if i < n_in && input[i] == 0 {
            z = i;
        }
    }
    let field_bytes = if z < n_in { z + 1 } else { n_in };
    let mode = state.mode;
    let len_after = state.length;
    let ck_after = state.checksum;
    core::mem::forget(state);
    if matches!(mode, Mode::Name | Mode::Comment | Mode::HCrc) {
        // every byte of the field (terminator included) is folded into the header CRC, nothing else
        assert!(ck_after == if hcrc { crc32(ck0, &input[..field_bytes]) } else { ck0 });
    }
    if hcrc && z < n_in {
        // the header CRC follows: verdict against the (model) checksum, or waiting for its two bytes
        if n_in - field_bytes < 2 {
            assert!(rc == ReturnCode::Ok && matches!(mode, Mode::HCrc) && used == n_in && head.done == 0);
        } else {
            let given = u16::from_le_bytes([input[field_bytes], input[field_bytes + 1]]) as u32;
            if given == crc32(ck0, &input[..field_bytes]) & 0xffff {
                assert!(rc == ReturnCode::Ok && matches!(mode, Mode::Type) && head.done == 1 && used == field_bytes + 2);
            } else {
                assert!(rc == ReturnCode::DataError && matches!(mode, Mode::Bad) && head.done == 0);
            }
        }
    } else {
    assert!(rc == ReturnCode::Ok);
    assert!(used == field_bytes);
    if z < n_in {
        assert!(matches!(mode, Mode::Type) && head.done == 1);
    } else {
        assert!(head.done == 0);
        assert!(if mode_sel { matches!(mode, Mode::Comment) } else { matches!(mode, Mode::Name) });
        assert!(null_buf || len_after <= max as usize);
    }
    }
    let room = max as usize - already;
    let stored = if field_bytes < room { field_bytes } else { room };
    let mut i = 0;
    while i < 8 {
        if !null_buf && i >= already && i < already + stored {
            assert!(buf[i] == input[i - already]);
        } else {
            assert!(buf[i] == init[i]);
        }
        i += 1;
    }
    kani::cover!(!null_buf && z == 2 && already == 1 && max == 4);
    kani::cover!(!null_buf && z == n_in && n_in == 6 && max == 2, "string longer than capacity, unterminated so far");
    kani::cover!(null_buf && z < n_in);
}

#[kani::proof]
#[kani::unwind(14)]
#[kani::stub(crate::inflate::inftrees::inflate_table, stub_table_unreachable)]
#[kani::stub(core::fmt::write, stub_fmt_write)]
#[kani::stub(core::panicking::panic_nounwind, stub_pn)]
#[kani::stub(core::panicking::panic_nounwind_fmt, stub_pnf)]
#[kani::stub(crate::crc32::crc32, stub_crc_model)]
#[kani::stub(crate::inflate::State::len_and_friends, stub_laf_suspends)]
#[kani::stub(crate::inflate::writer::Writer::copy_match, stub_copy_match_unreachable)]
#[kani::stub(crate::inflate::writer::Writer::extend_from_window, stub_efw_unreachable)]
#[kani::stub(<[u16]>::fill, stub_fill_unreachable)]
fn ki5b_name() {
    string_field(false);
}

#[kani::proof]
#[kani::unwind(14)]
#[kani::stub(crate::inflate::inftrees::inflate_table, stub_table_unreachable)]
#[kani::stub(core::fmt::write, stub_fmt_write)]
#[kani::stub(core::panicking::panic_nounwind, stub_pn)]
#[kani::stub(core::panicking::panic_nounwind_fmt, stub_pnf)]
#[kani::stub(crate::crc32::crc32, stub_crc_model)]
#[kani::stub(crate::inflate::State::len_and_friends, stub_laf_suspends)]
#[kani::stub(crate::inflate::writer::Writer::copy_match, stub_copy_match_unreachable)]
#[kani::stub(crate::inflate::writer::Writer::extend_from_window, stub_efw_unreachable)]
#[kani::stub(<[u16]>::fill, stub_fill_unreachable)]
fn ki5b_comment() {
    string_field(true);
}

/// header CRC verdict: accepted iff the stored CRC16 equals the low 16 bits of the running header CRC
#[kani::proof]
#[kani::unwind(10)]
#[kani::stub(crate::inflate::inftrees::inflate_table, stub_table_unreachable)]
#[kani::stub(core::fmt::write, stub_fmt_write)]
#[kani::stub(core::panicking::panic_nounwind, stub_pn)]
#[kani::stub(core::panicking::panic_nounwind_fmt, stub_pnf)]
#[kani::stub(crate::inflate::State::len_and_friends, stub_laf_suspends)]
#[kani::stub(crate::inflate::writer::Writer::copy_match, stub_copy_match_unreachable)]
#[kani::stub(crate::inflate::writer::Writer::extend_from_window, stub_efw_unreachable)]
#[kani::stub(<[u16]>::fill, stub_fill_unreachable)]
fn ki5b_hcrc() {
    let input: [u8; 3] = kani::any();
    let n_in: usize = kani::any();
    kani::assume(n_in <= 3);
    let mut head = gz_header::default();
    let mut out = [0u8; 4];
    let mut win = [0u8; 8 + 64];
    let wrap: u8 = kani::any();
    kani::assume(wrap == 2 || wrap == 6);
    let mut state = typed_state(&mut win, wrap, Mode::HCrc);
    let fhcrc: bool = kani::any();
    state.gzip_flags = if fhcrc { 0x0208 } else { 0x0008 };
    let ck: u32 = kani::any();
    state.checksum = ck;
    // the running data CRC of an earlier gzip member decoded with the same stream object (inflateResetKeep keeps it)
    state.crc_fold = Crc32Fold::new_with_initial(kani::any());
    state.head = head_ref(&mut head);
    state.flush = InflateFlush::Block;
    unsafe { state.bit_reader.update_slice(input.as_ptr(), n_in) };
    state.in_available = n_in;
    state.writer = unsafe { Writer::new_uninit(out.as_mut_ptr(), 4) };
    let rc = state.dispatch();
    let used = consumed(&state, input.as_ptr());
    let mode = state.mode;
    let ck_after = state.checksum;
    let fold_after = state.crc_fold;
    core::mem::forget(state);
    let given = u16::from_le_bytes([input[0], input[1]]) as u32;
    if !fhcrc {
        assert!(rc == ReturnCode::Ok && used == 0 && matches!(mode, Mode::Type) && head.done == 1 && head.hcrc == 0);
    } else if n_in < 2 {
        assert!(rc == ReturnCode::Ok && used == n_in && matches!(mode, Mode::HCrc) && head.done == 0);
    } else if wrap & 4 != 0 && given != (ck & 0xffff) {
        assert!(rc == ReturnCode::DataError && matches!(mode, Mode::Bad) && head.done == 0);
    } else {
        assert!(rc == ReturnCode::Ok && used == 2 && matches!(mode, Mode::Type) && head.done == 1 && head.hcrc == 1);
    }
    // the data CRC starts from the initial value once the header is done
    if matches!(mode, Mode::Type) && wrap & 4 != 0 {
        assert!(ck_after == 0);
        assert!(fold_after.finish() == crate::CRC32_INITIAL_VALUE, "this member's data CRC starts afresh, whatever an earlier member left behind");
    }
    kani::cover!(rc == ReturnCode::DataError);
    kani::cover!(fhcrc && matches!(mode, Mode::Type) && wrap == 6);
}

/// zlib header (RFC 1950): accepted iff CM = 8, CINFO <= 7 and within the configured window, (CMF*256+FLG) % 31 == 0;
/// FDICT leads to DictId/Dict and NeedDict with the big-endian id; gzip magic only when gzip decoding is enabled.
/// The number of input bytes (0..=6) and the wrap mode are concrete per instance (R10/R11: with a symbolic wrap the decoder
/// mode after `Head` is symbolic among the zlib and the gzip chains and CBMC needs more than 40 GB), everything else symbolic.
fn head_instance(n_in: usize, wrap: u8) {
    let input: [u8; 6] = kani::any();
    let mut out = [0u8; 4];
    let mut win = [0u8; 8 + 64];
    let mut state = typed_state(&mut win, wrap, Mode::Head);
    let wbits: u8 = kani::any();
    kani::assume(wbits == 0 || (wbits >= 8 && wbits <= 15));
    state.wbits = wbits;
    state.flush = InflateFlush::Block;
    unsafe { state.bit_reader.update_slice(input.as_ptr(), n_in) };
    state.in_available = n_in;
    state.writer = unsafe { Writer::new_uninit(out.as_mut_ptr(), 4) };
    let rc = state.dispatch();
    let used = consumed(&state, input.as_ptr());
    assert!(used <= n_in && state.writer.len() == 0);
    let cmf = input[0];
    let flg = input[1];
    let is_gzip_magic = cmf == 0x1f && flg == 0x8b;
    let mode = state.mode;
    if n_in < 2 {
        assert!(rc == ReturnCode::Ok && matches!(mode, Mode::Head));
    } else if wrap & 2 != 0 && is_gzip_magic {
        assert!(!matches!(mode, Mode::Head | Mode::Type | Mode::DictId | Mode::Dict));
        assert!(state.wbits == if wbits == 0 { 15 } else { wbits });
    } else {
        let cinfo = cmf >> 4;
        let want = if wbits == 0 { cinfo + 8 } else { wbits };
        let valid = wrap & 1 != 0
            && ((cmf as u32) * 256 + flg as u32) % 31 == 0
            && cmf & 0x0f == 8
            && cinfo <= 7
            && cinfo + 8 <= want;
        if !valid {
            assert!(rc == ReturnCode::DataError && matches!(mode, Mode::Bad));
        } else if flg & 0x20 == 0 {
            assert!(rc == ReturnCode::Ok && matches!(mode, Mode::Type) && used == 2);
            assert!(state.dmax == 1usize << (cinfo + 8) && state.checksum == 1 && state.gzip_flags == 0);
        } else if n_in < 6 {
            assert!(rc == ReturnCode::Ok && matches!(mode, Mode::DictId) && used == n_in);
        } else {
            // dictionary demanded, identifier reported (big endian)
            assert!(rc == ReturnCode::NeedDict && matches!(mode, Mode::Dict) && used == 6);
            assert!(state.checksum == u32::from_be_bytes([input[2], input[3], input[4], input[5]]));
        }
    }
    kani::cover!(n_in < 6 || wrap & 1 == 0 || rc == ReturnCode::NeedDict);
    kani::cover!(n_in < 2 || wrap & 1 == 0 || (matches!(mode, Mode::Type) && wbits == 0));
    kani::cover!(n_in < 2 || wrap & 1 == 0 || (rc == ReturnCode::DataError && ((cmf as u32) * 256 + flg as u32) % 31 == 0 && cmf & 0x0f == 8), "window size rejection");
    kani::cover!(n_in < 2 || wrap & 2 == 0 || is_gzip_magic, "gzip member recognised");
    core::mem::forget(state);
}

macro_rules! head_harness {
    ($name:ident, $n_in:expr, $wrap:expr) => {
        #[kani::proof]
        #[kani::unwind(6)]
        #[kani::stub(crate::inflate::inftrees::inflate_table, stub_table_unreachable)]
        #[kani::stub(core::fmt::write, stub_fmt_write)]
        #[kani::stub(core::panicking::panic_nounwind, stub_pn)]
        #[kani::stub(core::panicking::panic_nounwind_fmt, stub_pnf)]
        #[kani::stub(crate::crc32::crc32, stub_crc_nondet)]
        #[kani::stub(crate::inflate::State::len_and_friends, stub_laf_suspends)]
        #[kani::stub(crate::inflate::writer::Writer::copy_match, stub_copy_match_unreachable)]
        #[kani::stub(crate::inflate::writer::Writer::extend_from_window, stub_efw_unreachable)]
        #[kani::stub(<[u16]>::fill, stub_fill_unreachable)]
        fn $name() {
            head_instance($n_in, $wrap);
        }
    };
}
head_harness!(ki5a_head_w1_n0, 0, 1);
head_harness!(ki5a_head_w1_n1, 1, 1);
head_harness!(ki5a_head_w1_n2, 2, 1);
head_harness!(ki5a_head_w2_n0, 0, 2);
head_harness!(ki5a_head_w2_n1, 1, 2);
head_harness!(ki5a_head_w2_n2, 2, 2);
head_harness!(ki5a_head_w3_n0, 0, 3);
head_harness!(ki5a_head_w3_n1, 1, 3);
head_harness!(ki5a_head_w3_n2, 2, 3);
head_harness!(ki5a_head_w5_n0, 0, 5);
head_harness!(ki5a_head_w5_n1, 1, 5);
head_harness!(ki5a_head_w5_n2, 2, 5);
head_harness!(ki5a_head_w6_n0, 0, 6);
head_harness!(ki5a_head_w6_n1, 1, 6);
head_harness!(ki5a_head_w6_n2, 2, 6);
head_harness!(ki5a_head_w7_n0, 0, 7);
head_harness!(ki5a_head_w7_n1, 1, 7);
head_harness!(ki5a_head_w7_n2, 2, 7);

/// The chain after a zlib header that announces a preset dictionary: DictId reads the 4-byte identifier (big endian), Dict
/// reports NeedDict with it until a dictionary has been installed, then the running Adler-32 restarts at 1 and decoding goes
/// on with the first block.  Starts where `ki5a_head_w*_n2` ends (Mode::DictId with an empty register).
fn dictid_instance(n_in: usize, have_dict: bool) {
    let input: [u8; 4] = kani::any();
    let mut out = [0u8; 4];
    let mut win = [0u8; 8 + 64];
    let wrap: u8 = if kani::any() { 1 } else { 5 };
    let mut state = typed_state(&mut win, wrap, Mode::DictId);
    state.flags.update(Flags::HAVE_DICT, have_dict);
    state.flush = InflateFlush::Block;
    state.checksum = kani::any();
    unsafe { state.bit_reader.update_slice(input.as_ptr(), n_in) };
    state.in_available = n_in;
    state.writer = unsafe { Writer::new_uninit(out.as_mut_ptr(), 4) };
    let rc = state.dispatch();
    let used = consumed(&state, input.as_ptr());
    assert!(used == n_in && state.writer.len() == 0);
    if n_in < 4 {
        assert!(rc == ReturnCode::Ok && matches!(state.mode, Mode::DictId));
    } else if !have_dict {
        assert!(rc == ReturnCode::NeedDict && matches!(state.mode, Mode::Dict));
        assert!(state.checksum == u32::from_be_bytes(input), "the identifier the caller must match, big endian");
        assert!(state.bit_reader.bits_in_buffer() == 0);
    } else {
        // dictionary already installed (inflateSetDictionary before the header was complete is not possible for zlib
        // streams; this is the re-entry after the caller installed it): checksum restarts, first block header next
        assert!(rc == ReturnCode::Ok && matches!(state.mode, Mode::Type) && state.checksum == 1);
    }
    kani::cover!(input[0] == 0x12 && input[3] == 0x34);
    core::mem::forget(state);
}
macro_rules! dictid_harness {
    ($name:ident, $n_in:expr, $have:expr) => {
        #[kani::proof]
        #[kani::unwind(6)]
        #[kani::stub(crate::inflate::inftrees::inflate_table, stub_table_unreachable)]
        #[kani::stub(core::fmt::write, stub_fmt_write)]
        #[kani::stub(core::panicking::panic_nounwind, stub_pn)]
        #[kani::stub(core::panicking::panic_nounwind_fmt, stub_pnf)]
        #[kani::stub(crate::crc32::crc32, stub_crc_nondet)]
        #[kani::stub(crate::inflate::State::len_and_friends, stub_laf_suspends)]
        #[kani::stub(crate::inflate::writer::Writer::copy_match, stub_copy_match_unreachable)]
        #[kani::stub(crate::inflate::writer::Writer::extend_from_window, stub_efw_unreachable)]
        #[kani::stub(<[u16]>::fill, stub_fill_unreachable)]
        fn $name() {
            dictid_instance($n_in, $have);
        }
    };
}
dictid_harness!(ki5a_dictid_n3, 3, false);
dictid_harness!(ki5a_dictid_n4, 4, false);
dictid_harness!(ki5a_dictid_n4_have, 4, true);

/// inflate::set_dictionary: state check, Adler-32 identifier check, window load, HAVE_DICT; then Dict -> Type.
#[kani::proof]
#[kani::unwind(12)]
#[kani::stub(crate::inflate::inftrees::inflate_table, stub_table_unreachable)]
#[kani::stub(core::fmt::write, stub_fmt_write)]
#[kani::stub(core::panicking::panic_nounwind, stub_pn)]
#[kani::stub(core::panicking::panic_nounwind_fmt, stub_pnf)]
fn ki5a_set_dictionary() {
    const W: usize = 4;
    let dict: [u8; 6] = kani::any();
    let dl: usize = kani::any();
    kani::assume(dl <= 6);
    let mut win = [0u8; W + 64];
    let wrap: u8 = kani::any();
    kani::assume(wrap == 0 || wrap == 1 || wrap == 5);
    let in_dict_mode: bool = kani::any();
    let mut state = typed_state(&mut win, wrap, if in_dict_mode { Mode::Dict } else { Mode::Type });
    state.gzip_flags = 0;
    let id: u32 = kani::any();
    state.checksum = id;
    let mut stream = typed_stream(unsafe { &mut *(&mut state as *mut State) });
    let rc = set_dictionary(&mut stream, &dict[..dl]);
    let expect_id = ref_adler32(1, &dict[..dl]);
    if wrap != 0 && !in_dict_mode {
        assert!(rc == ReturnCode::StreamError);
        assert!(stream.state.window.have() == 0);
    } else if in_dict_mode && id != expect_id {
        assert!(rc == ReturnCode::DataError);
        assert!(stream.state.window.have() == 0 && !stream.state.flags.contains(Flags::HAVE_DICT));
    } else {
        assert!(rc == ReturnCode::Ok);
        assert!(stream.state.flags.contains(Flags::HAVE_DICT));
        let have = if dl < W { dl } else { W };
        assert!(stream.state.window.have() == have);
        // retrievable history = tail of the dictionary
        let mut o = [0u8; W];
        let n = unsafe { get_dictionary(&stream, o.as_mut_ptr()) };
        assert!(n == have);
        let mut i = 0;
        while i < W {
            if i < have {
                assert!(o[i] == dict[dl - have + i]);
            }
            i += 1;
        }
    }
    kani::cover!(rc == ReturnCode::Ok && in_dict_mode && dl == 6);
    kani::cover!(rc == ReturnCode::DataError);
    core::mem::forget(stream);
    core::mem::forget(state);
}
