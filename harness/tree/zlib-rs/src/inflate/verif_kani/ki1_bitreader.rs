//! KI1 — BitReader against a little-endian bit-queue model; split invariance (C04); bounds (C02); byte accounting (C15).
use super::*;

/// the same bytes as one slice or cut at a symbolic point give the same bit queue and the same cursor
#[kani::proof]
#[kani::unwind(12)]
#[kani::stub(core::fmt::write, stub_fmt_write)]
#[kani::stub(core::panicking::panic_nounwind, stub_pn)]
#[kani::stub(core::panicking::panic_nounwind_fmt, stub_pnf)]
fn ki1_bitreader_split() {
    let data: [u8; 6] = kani::any();
    let cut: usize = kani::any();
    kani::assume(cut <= 6);
    let need: usize = kani::any();
    kani::assume(need <= 32);
    let mut r1 = BitReader::new(&data);
    let ok1 = r1.need_bits(need).is_ok();
    let mut r2 = BitReader::new(&data[..cut]);
    let mut ok2 = r2.need_bits(need).is_ok();
    if !ok2 {
        let used = r2.as_ptr() as usize - data.as_ptr() as usize;
        assert!(used == cut);
        unsafe { r2.update_slice(data.as_ptr().add(cut), 6 - cut) };
        ok2 = r2.need_bits(need).is_ok();
    }
    assert!(ok1 == ok2);
    if ok1 {
        assert!(r1.bits(need) == r2.bits(need));
        assert!(r1.hold() == r2.hold());
        assert!(r1.bits_in_buffer() == r2.bits_in_buffer());
        assert!(r1.as_ptr() == r2.as_ptr());
        // value = little-endian packing of the bytes pulled
        let nb = (need + 7) / 8;
        let mut v: u64 = 0;
        let mut i = 0;
        while i < 6 {
            if i < nb {
                v |= (data[i] as u64) << (8 * i);
            }
            i += 1;
        }
        assert!(r1.hold() == v);
        assert!(r1.bits_in_buffer() as usize == 8 * nb);
    } else {
        assert!(need > 48);
    }
    assert!(r1.as_ptr() as usize <= data.as_ptr() as usize + 6);
    kani::cover!(ok1 && need == 32 && cut == 2);
}

/// pull/drop/refill/return_unused_bytes: the reader never leaves [start, end]; bits come out in stream order;
/// `return_unused_bytes` gives back exactly the whole bytes still in the register.
#[kani::proof]
#[kani::unwind(20)]
#[kani::stub(core::fmt::write, stub_fmt_write)]
#[kani::stub(core::panicking::panic_nounwind, stub_pn)]
#[kani::stub(core::panicking::panic_nounwind_fmt, stub_pnf)]
fn ki1_bitreader_refill_model() {
    const N: usize = 18;
    let data: [u8; N] = kani::any();
    let len: usize = kani::any();
    kani::assume(len <= N);
    let mut r = BitReader::new(&data[..len]);
    // arbitrary prelude: a few bits already in the register (as after a previous call)
    let pre: u8 = kani::any();
    kani::assume(pre <= 7);
    let pv: u64 = kani::any();
    r.prime(pre, pv);
    let pv = pv & ((1u64 << pre) - 1);
    let start = data.as_ptr() as usize;
    // one refill when the precondition holds
    if r.bytes_remaining() >= 8 {
        unsafe { r.refill() };
        let used = r.bits_in_buffer() as usize;
        assert!(used >= 56 && used <= 63);
        let took = (used - pre as usize) / 8;
        assert!(r.as_ptr() as usize == start + took);
        // register = prelude | bytes in order (bits above `used` may hold look-ahead data; compare the valid part)
        let mut v: u64 = pv;
        let mut i = 0;
        while i < 8 {
            if i < took {
                v |= (data[i] as u64) << (pre as usize + 8 * i);
            }
            i += 1;
        }
        let mask = (1u64 << used) - 1;
        assert!(r.hold() & mask == v & mask);
        // consume some bits, then hand back the unused whole bytes
        let d: u8 = kani::any();
        kani::assume((d as usize) <= used && d <= 48);
        r.drop_bits(d);
        let left_bits = used - d as usize;
        if left_bits <= 39 {
            r.return_unused_bytes();
            assert!(r.bits_in_buffer() as usize == left_bits % 8);
            assert!(r.as_ptr() as usize == start + took - left_bits / 8);
            assert!(r.hold() >> r.bits_in_buffer() == 0);
        }
        kani::cover!(took == 7 && d == 48);
    } else {
        // slow path: need_bits never reads past the end
        let need: usize = kani::any();
        kani::assume(need <= 32);
        let ok = r.need_bits(need).is_ok();
        assert!(r.as_ptr() as usize <= start + len);
        if !ok {
            assert!(r.as_ptr() as usize == start + len);
            assert!((r.bits_in_buffer() as usize) < need);
        }
        kani::cover!(!ok && len == 3);
    }
    // next_byte_boundary / advance
    let before = r.bits_in_buffer();
    r.next_byte_boundary();
    assert!(r.bits_in_buffer() % 8 == 0 && before - r.bits_in_buffer() <= 7);
    let adv: usize = kani::any();
    r.advance(adv);
    assert!(r.as_ptr() as usize <= start + len && r.as_ptr() as usize >= start);
}
