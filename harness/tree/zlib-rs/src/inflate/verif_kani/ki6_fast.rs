//! KI6 — the fast decoding loop (`inflate_fast_help_impl`), one `'outer` iteration from its documented entry condition
//! (>= 15 input bytes, >= INFLATE_FAST_MIN_LEFT bytes of output room): no access outside input/output/window (C02).
use super::*;

/// Contract stubs for the copy primitives: they check the caller-side precondition that KI2 assumes
/// (`offset <= filled`, `length <= remaining`, window range inside the window) and account for the bytes, without
/// moving data.  KI2 decides the primitives themselves under exactly that precondition, so the two compose.
pub(crate) fn stub_copy_match_contract<'a, const FEATURES: usize>(w: &mut Writer<'a>, offset_from_end: usize, length: usize)
where
    'a: 'a,
{
    assert!(offset_from_end >= 1 && offset_from_end <= w.len(), "copy_match: offset reaches before the start of the output");
    assert!(length <= w.remaining(), "copy_match: length exceeds the room left in the output buffer");
    let filled = w.len();
    let cap = w.capacity();
    let base = w.next_out().wrapping_sub(filled);
    *w = unsafe { Writer::new_uninit_raw(base as *mut u8, filled + length, cap) };
}
pub(crate) fn stub_efw_contract<'a, const FEATURES: usize>(w: &mut Writer<'a>, window: &Window<'_>, range: core::ops::Range<usize>)
where
    'a: 'a,
{
    assert!(range.start <= range.end && range.end <= window.size(), "extend_from_window: range outside the window");
    let len = range.end - range.start;
    assert!(len <= w.remaining(), "extend_from_window: length exceeds the room left in the output buffer");
    let filled = w.len();
    let cap = w.capacity();
    let base = w.next_out().wrapping_sub(filled);
    *w = unsafe { Writer::new_uninit_raw(base as *mut u8, filled + len, cap) };
}

fn fast_one_iteration<const FEATURES: usize>() {
    const W: usize = 8;
    const ROOM_EXTRA: usize = 2;
    // output buffer: exactly the documented minimum room (+0..=2), inside a canaried array
    const BUF: usize = 4 + 262 + 8;
    let mut out = [0xEEu8; BUF];
    let extra: usize = kani::any();
    kani::assume(extra <= ROOM_EXTRA);
    let cap = INFLATE_FAST_MIN_LEFT + extra;
    kani::assume(cap <= 262);
    let input: [u8; 15] = kani::any();
    let wcontent: [u8; W] = kani::any();
    let mut win = [0u8; W + 64];
    let mut k = 0;
    while k < W {
        win[k] = wcontent[k];
        k += 1;
    }
    let mut state = typed_state(&mut win, 0, Mode::Len);
    state.len_table = Table { codes: Codes::Fixed, bits: 9 };
    state.dist_table = Table { codes: Codes::Fixed, bits: 5 };
    let have: usize = kani::any();
    kani::assume(have <= W);
    unsafe { state.window.set_have(have) };
    unsafe { state.bit_reader.update_slice(input.as_ptr(), 15) };
    state.writer = unsafe { Writer::new_uninit_raw(out.as_mut_ptr().add(4), 0, cap) };
    unsafe { inflate_fast_help_impl::<FEATURES>(&mut state, 0) };
    let filled = state.writer.len();
    let used = consumed(&state, input.as_ptr());
    assert!(filled <= cap && used <= 15);
    assert!(matches!(state.mode, Mode::Len | Mode::Type | Mode::Bad));
    core::mem::forget(state);
    // canaries: nothing before the buffer, nothing at or beyond its capacity
    assert!(out[0] == 0xEE && out[1] == 0xEE && out[2] == 0xEE && out[3] == 0xEE);
    let j: usize = kani::any();
    kani::assume(j >= 4 + cap && j < BUF);
    assert!(out[j] == 0xEE);
    kani::cover!(filled == 260, "literal, literal, longest match: 260 bytes in one iteration");
    kani::cover!(filled >= 258);
}

#[kani::proof]
#[kani::unwind(10)] // mem::swap of the reader/writer structs is a chunked byte-swap loop
#[kani::stub(crate::inflate::inftrees::inflate_table, stub_table_unreachable)]
#[kani::stub(core::fmt::write, stub_fmt_write)]
#[kani::stub(core::panicking::panic_nounwind, stub_pn)]
#[kani::stub(core::panicking::panic_nounwind_fmt, stub_pnf)]
#[kani::stub(crate::inflate::writer::Writer::copy_match_with_features, stub_copy_match_contract)]
#[kani::stub(crate::inflate::writer::Writer::extend_from_window_with_features, stub_efw_contract)]
fn ki6_fast_loop_room() {
    fast_one_iteration::<{ crate::cpu_features::CpuFeatures::NONE }>();
}


// ---------------------------------------------------------------------------------------------------------------
// which window bytes a match is served from when the window has wrapped (its write head `next` is anywhere): the ranges the
// fast loop asks `extend_from_window` for must walk the ring in stream order — each starts where the previous one ended,
// modulo the window size — whatever the output schedule of earlier calls left in `next` (C04).  Same single-iteration
// set-up as above; the copy stub additionally records the ranges it is asked for.
// ---------------------------------------------------------------------------------------------------------------
static mut EFW_CALLS: usize = 0;
static mut EFW_START: [usize; 4] = [0; 4];
static mut EFW_LEN: [usize; 4] = [0; 4];

pub(crate) fn stub_efw_recording<'a, const FEATURES: usize>(w: &mut Writer<'a>, window: &Window<'_>, range: core::ops::Range<usize>)
where
    'a: 'a,
{
    assert!(range.start <= range.end && range.end <= window.size(), "extend_from_window: range outside the window");
    let len = range.end - range.start;
    assert!(len <= w.remaining(), "extend_from_window: length exceeds the room left in the output buffer");
    unsafe {
        if EFW_CALLS < 4 {
            EFW_START[EFW_CALLS] = range.start;
            EFW_LEN[EFW_CALLS] = len;
        }
        EFW_CALLS += 1;
    }
    let filled = w.len();
    let cap = w.capacity();
    let base = w.next_out().wrapping_sub(filled);
    *w = unsafe { Writer::new_uninit_raw(base as *mut u8, filled + len, cap) };
}

#[kani::proof]
#[kani::unwind(10)] // mem::swap of the reader/writer structs is a chunked byte-swap loop
#[kani::stub(crate::inflate::inftrees::inflate_table, stub_table_unreachable)]
#[kani::stub(core::fmt::write, stub_fmt_write)]
#[kani::stub(core::panicking::panic_nounwind, stub_pn)]
#[kani::stub(core::panicking::panic_nounwind_fmt, stub_pnf)]
#[kani::stub(crate::inflate::writer::Writer::copy_match_with_features, stub_copy_match_contract)]
#[kani::stub(crate::inflate::writer::Writer::extend_from_window_with_features, stub_efw_recording)]
fn ki6_fast_loop_walks_the_window_ring() {
    const W: usize = 8;
    const BUF: usize = 4 + 262 + 8;
    let mut out = [0xEEu8; BUF];
    let input: [u8; 15] = kani::any();
    let mut win = [0u8; W + 64];
    let mut state = typed_state(&mut win, 0, Mode::Len);
    state.len_table = Table { codes: Codes::Fixed, bits: 9 };
    state.dist_table = Table { codes: Codes::Fixed, bits: 5 };
    // a window that has wrapped: full, write head anywhere
    let next: usize = kani::any();
    kani::assume(next < W);
    crate::inflate::window::verif_kani::set_ring(&mut state.window, W, next);
    unsafe { state.bit_reader.update_slice(input.as_ptr(), 15) };
    state.writer = unsafe { Writer::new_uninit_raw(out.as_mut_ptr().add(4), 0, 262) };
    unsafe {
        EFW_CALLS = 0;
    }
    unsafe { inflate_fast_help_impl::<{ crate::cpu_features::CpuFeatures::NONE }>(&mut state, 0) };
    let calls = unsafe { EFW_CALLS };
    // (native: nothing is recorded, the ranges are what the real copies were given; these two hold either way)
    assert!(state.writer.len() <= 262);
    assert!(matches!(state.mode, Mode::Len | Mode::Type | Mode::Bad));
    assert!(calls <= 2, "one match per iteration: at most the end of the ring and then its start");
    if calls == 2 {
        let (s0, l0, s1) = unsafe { (EFW_START[0], EFW_LEN[0], EFW_START[1]) };
        assert!(s0 + l0 == W && s1 == 0, "a match that crosses the end of the window buffer continues at its start");
        assert!(l0 >= 1 && s0 >= next, "the part before the wrap point is the older data, behind the write head");
    }
    if calls >= 1 {
        let (s0, l0) = unsafe { (EFW_START[0], EFW_LEN[0]) };
        // the oldest byte in a full ring sits at `next`: a source range never starts inside the newer part and runs across
        // the write head into the older part
        assert!(!(s0 < next && s0 + l0 > next), "a source range does not cross the write head");
    }
    kani::cover!(calls == 2);
    kani::cover!(calls == 1);
    core::mem::forget(state);
}

// The same question with data: a concrete match (length 4 at distance 6, nothing written yet in this call) served from a
// wrapped 8-byte window whose bytes name their ring position, write head anywhere.  The window copy is replaced by a plain
// byte loop with the primitive's semantics (the chunked primitive itself is KI2's subject), so the bytes are there under the
// solver and under a native replay alike: out[i] is the byte 6 - i positions behind the write head.
pub(crate) fn stub_efw_bytewise<'a, const FEATURES: usize>(w: &mut Writer<'a>, window: &Window<'_>, range: core::ops::Range<usize>)
where
    'a: 'a,
{
    assert!(range.start <= range.end && range.end <= window.size(), "extend_from_window: range outside the window");
    let mut i = range.start;
    while i < range.end {
        let b = unsafe { *window.as_ptr().add(i) };
        w.push(b);
        i += 1;
    }
}

#[kani::proof]
#[kani::unwind(10)]
#[kani::stub(crate::inflate::inftrees::inflate_table, stub_table_unreachable)]
#[kani::stub(core::fmt::write, stub_fmt_write)]
#[kani::stub(core::panicking::panic_nounwind, stub_pn)]
#[kani::stub(core::panicking::panic_nounwind_fmt, stub_pnf)]
#[kani::stub(crate::inflate::writer::Writer::copy_match_with_features, stub_copy_match_contract)]
#[kani::stub(crate::inflate::writer::Writer::extend_from_window_with_features, stub_efw_bytewise)]
fn ki6_fast_loop_match_from_a_wrapped_window() {
    const W: usize = 8;
    let mut out = [0xEEu8; 4 + 262 + 8];
    // length symbol 258 (length 4), distance code 4 + extra bit 1 (distance 6), end of block, padding
    let input: [u8; 15] = [0x20, 0x12, 0, 0, 0, 0, 0, 0, 0, 0, 0, 0, 0, 0, 0];
    let mut win = [0u8; W + 64];
    let mut k = 0;
    while k < W {
        win[k] = 0xA0 + k as u8;
        k += 1;
    }
    let mut state = typed_state(&mut win, 0, Mode::Len);
    state.len_table = Table { codes: Codes::Fixed, bits: 9 };
    state.dist_table = Table { codes: Codes::Fixed, bits: 5 };
    let next: usize = kani::any();
    kani::assume(next < W);
    crate::inflate::window::verif_kani::set_ring(&mut state.window, W, next);
    unsafe { state.bit_reader.update_slice(input.as_ptr(), 15) };
    state.writer = unsafe { Writer::new_uninit_raw(out.as_mut_ptr().add(4), 0, 262) };
    unsafe { inflate_fast_help_impl::<{ crate::cpu_features::CpuFeatures::NONE }>(&mut state, 0) };
    assert!(matches!(state.mode, Mode::Type | Mode::Len), "no error: the match is valid for a full window");
    assert!(state.writer.len() == 4);
    core::mem::forget(state);
    let mut i = 0;
    while i < 4 {
        assert!(out[4 + i] == 0xA0 + ((next + W - 6 + i) % W) as u8, "stream order: the byte `distance - i` positions behind the write head");
        i += 1;
    }
    kani::cover!(next == 3);
    kani::cover!(next == 0);
}
