//! KI5d — symbol decoding on the fixed tables, one step per start mode, through both copies of the code
//! (`len_and_friends` and the duplicate arms in `dispatch`): C02, C03, C04.
use super::*;

const LBASE: [u16; 29] = [3, 4, 5, 6, 7, 8, 9, 10, 11, 13, 15, 17, 19, 23, 27, 31, 35, 43, 51, 59, 67, 83, 99, 115, 131, 163, 195, 227, 258];
const LEXT: [u8; 29] = [0, 0, 0, 0, 0, 0, 0, 0, 1, 1, 1, 1, 2, 2, 2, 2, 3, 3, 3, 3, 4, 4, 4, 4, 5, 5, 5, 5, 0];
const DBASE: [u16; 30] = [1, 2, 3, 4, 5, 7, 9, 13, 17, 25, 33, 49, 65, 97, 129, 193, 257, 385, 513, 769, 1025, 1537, 2049, 3073, 4097, 6145, 8193, 12289, 16385, 24577];
const DEXT: [u8; 30] = [0, 0, 0, 0, 1, 1, 2, 2, 3, 3, 4, 4, 5, 5, 6, 6, 7, 7, 8, 8, 9, 9, 10, 10, 11, 11, 12, 12, 13, 13];

fn rev(v: u64, n: u32) -> u32 {
    ((v as u32).reverse_bits()) >> (32 - n)
}

/// RFC 1951 3.2.6 fixed literal/length code read LSB-first from `v` (zero padded): (symbol, code length)
fn ref_fixed_lit(v: u64) -> (u16, u8) {
    let c7 = rev(v & 0x7f, 7);
    if c7 <= 0x17 {
        return (256 + c7 as u16, 7);
    }
    let c8 = rev(v & 0xff, 8);
    if c8 >= 0x30 && c8 <= 0xbf {
        return ((c8 - 0x30) as u16, 8);
    }
    if c8 >= 0xc0 && c8 <= 0xc7 {
        return (280 + (c8 - 0xc0) as u16, 8);
    }
    let c9 = rev(v & 0x1ff, 9);
    (144 + (c9 - 0x190) as u16, 9)
}

fn setup_fixed(state: &mut State<'_>) {
    state.len_table = Table { codes: Codes::Fixed, bits: 9 };
    state.dist_table = Table { codes: Codes::Fixed, bits: 5 };
}

/// One literal/length symbol from `Len` with at most 9 bits available and no further input.
#[kani::proof]
#[kani::unwind(8)]
#[kani::stub(crate::inflate::inftrees::inflate_table, stub_table_unreachable)]
#[kani::stub(core::fmt::write, stub_fmt_write)]
#[kani::stub(core::panicking::panic_nounwind, stub_pn)]
#[kani::stub(core::panicking::panic_nounwind_fmt, stub_pnf)]
#[kani::stub(crate::inflate::inflate_fast_help, stub_fast_unreachable)]
#[kani::stub(crate::inflate::writer::Writer::copy_match, stub_copy_match_unreachable)]
#[kani::stub(crate::inflate::writer::Writer::extend_from_window, stub_efw_unreachable)]
fn ki5d_len_step() {
    let init: [u8; 4] = kani::any();
    let mut out = init;
    let pre: usize = kani::any();
    let cap: usize = kani::any();
    kani::assume(pre <= cap && cap <= 3);
    let mut win = [0u8; 8 + 64];
    let mut state = typed_state(&mut win, 0, Mode::Len);
    setup_fixed(&mut state);
    let nb: u8 = kani::any();
    kani::assume(nb <= 9);
    let pv: u64 = kani::any();
    state.bit_reader.prime(nb, pv);
    let pv = pv & ((1u64 << nb) - 1);
    state.writer = unsafe { Writer::new_uninit_raw(out.as_mut_ptr(), pre, cap) };
    let rc = match state.len_and_friends() {
        ControlFlow::Break(rc) => rc,
        ControlFlow::Continue(()) => ReturnCode::Ok,
    };
    let mode = state.mode;
    let filled = state.writer.len();
    let bits_left = state.bit_reader.bits_in_buffer();
    let (length, extra, back) = (state.length, state.extra, state.back);
    core::mem::forget(state);
    let (sym, clen) = ref_fixed_lit(pv);
    if clen > nb {
        // not enough bits for this code: asks for more, nothing consumed
        assert!(rc == ReturnCode::Ok && matches!(mode, Mode::Len) && bits_left == nb && filled == pre);
    } else if sym < 256 {
        assert!(rc == ReturnCode::Ok && bits_left == nb - clen);
        if pre == cap {
            assert!(matches!(mode, Mode::Lit) && filled == pre && length == sym as usize);
        } else {
            assert!(matches!(mode, Mode::Len) && filled == pre + 1 && out[pre] == sym as u8);
        }
    } else if sym == 256 {
        // end of block: back at the block layer (needs 3 more bits), marker for inflateMark
        assert!(rc == ReturnCode::Ok && matches!(mode, Mode::TypeDo | Mode::Type) && back == usize::MAX && filled == pre);
    } else if sym >= 286 {
        assert!(rc == ReturnCode::DataError && matches!(mode, Mode::Bad) && filled == pre);
    } else {
        let li = (sym - 257) as usize;
        assert!(rc == ReturnCode::Ok && filled == pre);
        let ex = LEXT[li] as u8;
        if ex != 0 && nb - clen < ex {
            assert!(matches!(mode, Mode::LenExt) && length == LBASE[li] as usize && extra == ex as usize);
        } else {
            // extra bits consumed, waiting for the distance code (fewer than 5 bits can remain)
            let exv = ((pv >> clen) & ((1u64 << ex) - 1)) as usize;
            assert!(length == LBASE[li] as usize + exv);
            assert!(matches!(mode, Mode::Dist) && bits_left == nb - clen - ex);
        }
    }
    let mut i = 0;
    while i < 4 {
        if i != pre || filled == pre {
            assert!(out[i] == init[i]);
        }
        i += 1;
    }
    kani::cover!(sym == 285 && clen <= nb);
    kani::cover!(sym == 287 && clen <= nb);
    kani::cover!(sym == 255 && clen <= nb && pre < cap);
    kani::cover!(sym == 256 && clen <= nb);
    kani::cover!(clen > nb && nb == 8);
}

/// Distance decoding from `LenExt`/`Dist`/`DistExt` with the output already full, so the step ends in `Match`
/// before any copy: offset = RFC base + extra; codes 30/31 rejected; bookkeeping of `length`, `was`.
fn dist_step<const VIA_FRIENDS: bool>() {
    let mut out = [0u8; 4];
    let mut win = [0u8; 8 + 64];
    let start: u8 = kani::any();
    kani::assume(start < 3);
    let mode0 = match start {
        0 => Mode::LenExt,
        1 => Mode::Dist,
        _ => Mode::DistExt,
    };
    let mut state = typed_state(&mut win, 0, mode0);
    setup_fixed(&mut state);
    let len0: usize = kani::any();
    kani::assume(len0 >= 3 && len0 <= 258);
    state.length = len0;
    state.was = len0;
    let lext: usize = kani::any();
    kani::assume(lext <= 5);
    let dext0: usize = kani::any();
    kani::assume(dext0 <= 13);
    let off0: usize = kani::any();
    kani::assume(off0 >= 1 && off0 <= 24577);
    match start {
        0 => state.extra = lext,
        1 => {}
        _ => {
            state.extra = dext0;
            state.offset = off0;
        }
    }
    state.back = 0;
    let nb: u8 = kani::any();
    kani::assume(nb <= 23);
    let pv: u64 = kani::any();
    state.bit_reader.prime(nb, pv);
    let pv = pv & ((1u64 << nb) - 1);
    // full writer: `Match` returns at once
    state.writer = unsafe { Writer::new_uninit_raw(out.as_mut_ptr(), 2, 2) };
    let rc = if VIA_FRIENDS {
        match state.len_and_friends() {
            ControlFlow::Break(rc) => rc,
            ControlFlow::Continue(()) => ReturnCode::Ok,
        }
    } else {
        state.dispatch()
    };
    let mode = state.mode;
    let bits_left = state.bit_reader.bits_in_buffer() as usize;
    let (length, offset, extra, was) = (state.length, state.offset, state.extra, state.was);
    core::mem::forget(state);
    assert!(out[0] == 0 && out[1] == 0 && out[2] == 0 && out[3] == 0);
    // reference
    let mut v = pv;
    let mut n = nb as usize;
    let mut exp_len = len0;
    let mut stage = start;
    if stage == 0 {
        if n < lext {
            assert!(rc == ReturnCode::Ok && matches!(mode, Mode::LenExt) && length == len0 && bits_left == nb as usize);
            return;
        }
        exp_len += (v & ((1u64 << lext) - 1)) as usize;
        v >>= lext;
        n -= lext;
        stage = 1;
    }
    let mut exp_off = off0;
    let mut dext = dext0;
    if stage == 1 {
        if n < 5 {
            assert!(rc == ReturnCode::Ok && matches!(mode, Mode::Dist) && length == exp_len && bits_left == n);
            assert!(start != 0 || was == exp_len);
            return;
        }
        let dsym = rev(v & 31, 5) as usize;
        v >>= 5;
        n -= 5;
        if dsym >= 30 {
            assert!(rc == ReturnCode::DataError && matches!(mode, Mode::Bad));
            return;
        }
        exp_off = DBASE[dsym] as usize;
        dext = DEXT[dsym] as usize;
    }
    if n < dext {
        assert!(rc == ReturnCode::Ok && matches!(mode, Mode::DistExt) && offset == exp_off && extra == dext && bits_left == n);
        return;
    }
    exp_off += (v & ((1u64 << dext) - 1)) as usize;
    n -= dext;
    assert!(rc == ReturnCode::Ok && matches!(mode, Mode::Match));
    assert!(offset == exp_off && length == exp_len && bits_left == n);
    kani::cover!(start == 0 && exp_off == 32768 && exp_len == 258);
    kani::cover!(start == 1 && exp_off == 1);
}

#[kani::proof]
#[kani::unwind(6)]
#[kani::stub(crate::inflate::inftrees::inflate_table, stub_table_unreachable)]
#[kani::stub(core::fmt::write, stub_fmt_write)]
#[kani::stub(core::panicking::panic_nounwind, stub_pn)]
#[kani::stub(core::panicking::panic_nounwind_fmt, stub_pnf)]
#[kani::stub(crate::inflate::inflate_fast_help, stub_fast_unreachable)]
#[kani::stub(crate::inflate::writer::Writer::copy_match, stub_copy_match_unreachable)]
#[kani::stub(crate::inflate::writer::Writer::extend_from_window, stub_efw_unreachable)]
#[kani::stub(crate::inflate::State::len_and_friends, stub_laf_suspends)]
#[kani::stub(<[u16]>::fill, stub_fill_unreachable)]
fn ki5d_dist_step_dispatch() {
    dist_step::<false>();
}

#[kani::proof]
#[kani::unwind(6)]
#[kani::stub(crate::inflate::inftrees::inflate_table, stub_table_unreachable)]
#[kani::stub(core::fmt::write, stub_fmt_write)]
#[kani::stub(core::panicking::panic_nounwind, stub_pn)]
#[kani::stub(core::panicking::panic_nounwind_fmt, stub_pnf)]
#[kani::stub(crate::inflate::inflate_fast_help, stub_fast_unreachable)]
#[kani::stub(crate::inflate::writer::Writer::copy_match, stub_copy_match_unreachable)]
#[kani::stub(crate::inflate::writer::Writer::extend_from_window, stub_efw_unreachable)]
fn ki5d_dist_step_friends() {
    dist_step::<true>();
}

/// Byte-loop models of the two copy primitives: they assert the caller-side precondition KI2 assumes (`offset <= filled`,
/// `length <= remaining`, range inside the window) and then move the bytes one at a time.  KI2's twins decide that the real
/// chunked primitives equal exactly this loop under that precondition, so the two compose; the real ones cost 20 GB here.
pub(crate) fn stub_copy_match_model<'a>(w: &mut Writer<'a>, offset_from_end: usize, length: usize)
where
    'a: 'a,
{
    assert!(offset_from_end >= 1 && offset_from_end <= w.len(), "copy_match: offset reaches before the start of the output");
    assert!(length <= w.remaining(), "copy_match: length exceeds the room left in the output buffer");
    let filled = w.len();
    let cap = w.capacity();
    let base = w.next_out().wrapping_sub(filled) as *mut u8;
    let mut i = 0;
    while i < length {
        unsafe { *base.add(filled + i) = *base.add(filled + i - offset_from_end) };
        i += 1;
    }
    *w = unsafe { Writer::new_uninit_raw(base, filled + length, cap) };
}
pub(crate) fn stub_efw_model<'a>(w: &mut Writer<'a>, window: &Window<'_>, range: core::ops::Range<usize>)
where
    'a: 'a,
{
    assert!(range.start <= range.end && range.end <= window.size(), "extend_from_window: range outside the window");
    let len = range.end - range.start;
    assert!(len > 0 && range.start < window.size(), "extend_from_window: empty copy — the match makes no progress");
    assert!(len <= w.remaining(), "extend_from_window: length exceeds the room left in the output buffer");
    let filled = w.len();
    let cap = w.capacity();
    let base = w.next_out().wrapping_sub(filled) as *mut u8;
    let mut i = 0;
    while i < len {
        unsafe { *base.add(filled + i) = *window.as_ptr().add(range.start + i) };
        i += 1;
    }
    *w = unsafe { Writer::new_uninit_raw(base, filled + len, cap) };
}

/// Contract-only versions (no bytes moved): the quick-tier guard harnesses decide *when* a match is rejected and the
/// length/room accounting; the byte-level LZ77 semantics are the `_step_` harnesses above (thorough) and KI2.
pub(crate) fn stub_copy_match_contract0<'a>(w: &mut Writer<'a>, offset_from_end: usize, length: usize)
where
    'a: 'a,
{
    assert!(offset_from_end >= 1 && offset_from_end <= w.len(), "copy_match: offset reaches before the start of the output");
    assert!(length <= w.remaining(), "copy_match: length exceeds the room left in the output buffer");
    let filled = w.len();
    let cap = w.capacity();
    let base = w.next_out().wrapping_sub(filled) as *mut u8;
    *w = unsafe { Writer::new_uninit_raw(base, filled + length, cap) };
}
pub(crate) fn stub_efw_contract0<'a>(w: &mut Writer<'a>, window: &Window<'_>, range: core::ops::Range<usize>)
where
    'a: 'a,
{
    assert!(range.start <= range.end && range.end <= window.size(), "extend_from_window: range outside the window");
    let len = range.end - range.start;
    assert!(len > 0 && range.start < window.size(), "extend_from_window: empty copy — the match makes no progress");
    assert!(len <= w.remaining(), "extend_from_window: length exceeds the room left in the output buffer");
    let filled = w.len();
    let cap = w.capacity();
    let base = w.next_out().wrapping_sub(filled) as *mut u8;
    *w = unsafe { Writer::new_uninit_raw(base, filled + len, cap) };
}

/// One `Match` step (no bits, no input): rejected exactly when the distance reaches before everything available
/// (output of this call + window); otherwise LZ77 semantics, canaries, partial copies resume.
fn match_step<const VIA_FRIENDS: bool, const CAP: usize, const MAXLEN: usize, const BYTES: bool>() {
    const W: usize = 8;
    let init: [u8; 16] = kani::any();
    let mut out = init;
    let pre: usize = kani::any();
    let n_out: usize = kani::any();
    kani::assume(pre <= 4 && n_out >= pre && n_out <= CAP && CAP + 4 <= 16);
    let wcontent: [u8; W] = kani::any();
    let mut win = [0u8; W + 64];
    let mut k = 0;
    while k < W {
        win[k] = wcontent[k];
        k += 1;
    }
    let mut state = typed_state(&mut win, 0, Mode::Match);
    setup_fixed(&mut state);
    // window pre-state: not yet wrapped (next == have < W) or full with any write head
    let have: usize = kani::any();
    let next: usize = kani::any();
    kani::assume((have < W && next == have) || (have == W && next < W));
    crate::inflate::window::verif_kani::set_ring(&mut state.window, have, next);
    let len: usize = kani::any();
    kani::assume(len >= 1 && len <= MAXLEN);
    let off: usize = kani::any();
    kani::assume(off >= 1 && off <= 32768);
    state.length = len;
    state.was = len;
    state.offset = off;
    state.writer = unsafe { Writer::new_uninit_raw(out.as_mut_ptr(), pre, n_out) };
    let rc = if VIA_FRIENDS {
        match state.len_and_friends() {
            ControlFlow::Break(rc) => rc,
            ControlFlow::Continue(()) => ReturnCode::Ok,
        }
    } else {
        state.dispatch()
    };
    let filled = state.writer.len();
    let bad = matches!(state.mode, Mode::Bad);
    let rest = state.length;
    let mode = state.mode;
    core::mem::forget(state);
    assert!(matches!(rc, ReturnCode::Ok | ReturnCode::DataError));
    let full_at_entry = pre == n_out;
    if full_at_entry {
        assert!(rc == ReturnCode::Ok && filled == pre && rest == len && matches!(mode, Mode::Match));
    } else {
        assert!(bad == (off > pre + have), "rejected exactly when the distance reaches before everything available");
        if bad {
            assert!(rc == ReturnCode::DataError && filled == pre);
        } else {
            assert!(filled - pre + rest == len);
            assert!(filled == n_out || rest == 0);
            assert!(matches!(mode, Mode::Match) == (rest != 0));
        }
    }
    let mut i = if BYTES { 0 } else { 16 };
    while i < 16 {
        if i < pre || i >= filled {
            assert!(out[i] == init[i]);
        } else if off <= i {
            assert!(out[i] == out[i - off]);
        } else {
            // d bytes before the start of this call's output = ring position (next - d) mod W
            let d = off - i;
            let pos = (next + W - d) % W;
            assert!(out[i] == wcontent[pos]);
        }
        i += 1;
    }
    kani::cover!(!bad && !full_at_entry && off > pre && rest == 0 && next != 0 && have == W, "copy from the window, wrapped ring");
    kani::cover!(!bad && off > pre && off < filled, "copy spans window and output");
    kani::cover!(bad);
    kani::cover!(!bad && !full_at_entry && off == pre + have, "match starts at the oldest byte still available");
    kani::cover!(!bad && rest > 0 && filled > pre, "partial copy, resumes later");
}

#[kani::proof]
#[kani::unwind(20)]
#[kani::stub(crate::inflate::inftrees::inflate_table, stub_table_unreachable)]
#[kani::stub(core::fmt::write, stub_fmt_write)]
#[kani::stub(core::panicking::panic_nounwind, stub_pn)]
#[kani::stub(core::panicking::panic_nounwind_fmt, stub_pnf)]
#[kani::stub(crate::inflate::inflate_fast_help, stub_fast_unreachable)]
#[kani::stub(crate::inflate::State::len_and_friends, stub_laf_suspends)]
#[kani::stub(crate::inflate::writer::Writer::copy_match, stub_copy_match_model)]
#[kani::stub(crate::inflate::writer::Writer::extend_from_window, stub_efw_model)]
fn ki5d_match_step_dispatch() {
    match_step::<false, 8, 258, true>();
}

#[kani::proof]
#[kani::unwind(20)]
#[kani::stub(crate::inflate::inftrees::inflate_table, stub_table_unreachable)]
#[kani::stub(core::fmt::write, stub_fmt_write)]
#[kani::stub(core::panicking::panic_nounwind, stub_pn)]
#[kani::stub(core::panicking::panic_nounwind_fmt, stub_pnf)]
#[kani::stub(crate::inflate::inflate_fast_help, stub_fast_unreachable)]
#[kani::stub(crate::inflate::writer::Writer::copy_match, stub_copy_match_model)]
#[kani::stub(crate::inflate::writer::Writer::extend_from_window, stub_efw_model)]
fn ki5d_match_step_friends() {
    match_step::<true, 8, 258, true>();
}

#[kani::proof]
#[kani::unwind(20)]
#[kani::stub(crate::inflate::inftrees::inflate_table, stub_table_unreachable)]
#[kani::stub(core::fmt::write, stub_fmt_write)]
#[kani::stub(core::panicking::panic_nounwind, stub_pn)]
#[kani::stub(core::panicking::panic_nounwind_fmt, stub_pnf)]
#[kani::stub(crate::inflate::inflate_fast_help, stub_fast_unreachable)]
#[kani::stub(crate::inflate::State::len_and_friends, stub_laf_suspends)]
#[kani::stub(crate::inflate::writer::Writer::copy_match, stub_copy_match_contract0)]
#[kani::stub(crate::inflate::writer::Writer::extend_from_window, stub_efw_contract0)]
fn ki5d_match_guard_dispatch() {
    match_step::<false, 8, 258, false>();
}

#[kani::proof]
#[kani::unwind(20)]
#[kani::stub(crate::inflate::inftrees::inflate_table, stub_table_unreachable)]
#[kani::stub(core::fmt::write, stub_fmt_write)]
#[kani::stub(core::panicking::panic_nounwind, stub_pn)]
#[kani::stub(core::panicking::panic_nounwind_fmt, stub_pnf)]
#[kani::stub(crate::inflate::inflate_fast_help, stub_fast_unreachable)]
#[kani::stub(crate::inflate::writer::Writer::copy_match, stub_copy_match_contract0)]
#[kani::stub(crate::inflate::writer::Writer::extend_from_window, stub_efw_contract0)]
fn ki5d_match_guard_friends() {
    match_step::<true, 8, 258, false>();
}

// ---------------------------------------------------------------------------------------------------------------
// a dynamic distance code with codes longer than the 9-bit root table (second-level tables): lengths 1, 2, ..., 9, 10, 10
// for the distance symbols 0..=10 (complete).  The table is built by the real `inflate_table` from these concrete lengths.
// Symbol 9 is `1111111110`, symbol 10 `1111111111` (first bit first).  With only the nine root bits available the step must
// suspend without consuming them; with the tenth bit from the next input byte both calls together decode the symbol a single
// call would (C04), in the copy of the code that runs when a call resumes mid-match (`dispatch`) and in `len_and_friends`.
fn install_long_dist_code(state: &mut State<'_>) {
    let mut lens = [0u16; 30];
    let mut k = 0;
    while k < 9 {
        lens[k] = (k + 1) as u16;
        k += 1;
    }
    lens[9] = 10;
    lens[10] = 10;
    let r = inftrees::inflate_table(inftrees::CodeType::Dists, &lens, &mut state.dist_codes, 9, &mut state.work);
    let inftrees::InflateTable::Success { root, used } = r else { panic!("a complete code") };
    assert!(root == 9 && used > 512);
    state.dist_table = Table { codes: Codes::Dist, bits: root };
    state.len_table = Table { codes: Codes::Fixed, bits: 9 };
}

fn dist_long_code<const VIA_FRIENDS: bool>() {
    let mut out = [0u8; 4];
    let mut win = [0u8; 8 + 64];
    let mut state = typed_state(&mut win, 0, Mode::Dist);
    install_long_dist_code(&mut state);
    state.length = 3;
    state.was = 3;
    state.back = 0;
    state.bit_reader.prime(9, 0x1ff); // the nine root bits of a ten-bit code, nothing else
    state.writer = unsafe { Writer::new_uninit_raw(out.as_mut_ptr(), 2, 2) }; // full: Match returns at once
    let input: [u8; 1] = kani::any();
    unsafe { state.bit_reader.update_slice(input.as_ptr(), 0) };
    state.in_available = 0;
    let rc1 = if VIA_FRIENDS {
        match state.len_and_friends() {
            ControlFlow::Break(rc) => rc,
            ControlFlow::Continue(()) => ReturnCode::Ok,
        }
    } else {
        state.dispatch()
    };
    assert!(rc1 == ReturnCode::Ok && matches!(state.mode, Mode::Dist), "not enough bits for the code: suspend");
    assert!(state.bit_reader.bits_in_buffer() == 9 && state.bit_reader.hold() == 0x1ff, "an incomplete code stays in the bit register");
    // the rest arrives
    unsafe { state.bit_reader.update_slice(input.as_ptr(), 1) };
    state.in_available = 1;
    let rc2 = if VIA_FRIENDS {
        match state.len_and_friends() {
            ControlFlow::Break(rc) => rc,
            ControlFlow::Continue(()) => ReturnCode::Ok,
        }
    } else {
        state.dispatch()
    };
    // tenth bit = bit 0 of the byte: 0 -> symbol 9 (base 25, 3 extra bits), 1 -> symbol 10 (base 33, 4 extra bits);
    // the extra bits follow in the same byte
    let (base, xb) = if input[0] & 1 == 0 { (25usize, 3u32) } else { (33usize, 4u32) };
    let extra = ((input[0] >> 1) as usize) & ((1 << xb) - 1);
    assert!(rc2 == ReturnCode::Ok && matches!(state.mode, Mode::Match), "the match is decoded; the full writer stops the copy");
    assert!(state.offset == base + extra, "distance = RFC base of the symbol + extra bits");
    assert!(state.bit_reader.bits_in_buffer() as u32 == 8 - 1 - xb);
    assert!(state.length == 3);
    kani::cover!(input[0] & 1 == 1 && extra == 15);
    kani::cover!(input[0] & 1 == 0 && extra == 0);
    core::mem::forget(state);
}

#[kani::proof]
#[kani::unwind(34)]
#[kani::stub(core::fmt::write, stub_fmt_write)]
#[kani::stub(core::panicking::panic_nounwind, stub_pn)]
#[kani::stub(core::panicking::panic_nounwind_fmt, stub_pnf)]
#[kani::stub(crate::inflate::inflate_fast_help, stub_fast_unreachable)]
#[kani::stub(crate::inflate::State::len_and_friends, stub_laf_suspends)]
#[kani::stub(crate::inflate::writer::Writer::copy_match, stub_copy_match_unreachable)]
#[kani::stub(crate::inflate::writer::Writer::extend_from_window, stub_efw_unreachable)]
fn ki5d_dist_long_code_dispatch() {
    dist_long_code::<false>();
}

#[kani::proof]
#[kani::unwind(34)]
#[kani::stub(core::fmt::write, stub_fmt_write)]
#[kani::stub(core::panicking::panic_nounwind, stub_pn)]
#[kani::stub(core::panicking::panic_nounwind_fmt, stub_pnf)]
#[kani::stub(crate::inflate::inflate_fast_help, stub_fast_unreachable)]
#[kani::stub(crate::inflate::writer::Writer::copy_match, stub_copy_match_unreachable)]
#[kani::stub(crate::inflate::writer::Writer::extend_from_window, stub_efw_unreachable)]
fn ki5d_dist_long_code_friends() {
    dist_long_code::<true>();
}

/// LENFIX / DISTFIX (the fixed-table constants used by every fixed block) equal RFC 1951 3.2.6:
/// for every 9-bit / 5-bit index the entry decodes the RFC symbol with the RFC length.
#[kani::proof]
#[kani::unwind(4)]
fn ki5d_fixed_tables_are_rfc() {
    let idx: usize = kani::any();
    kani::assume(idx < 512);
    let e = self::inffixed_tbl::LENFIX[idx];
    let (sym, clen) = ref_fixed_lit(idx as u64);
    assert!(e.bits == clen);
    if sym < 256 {
        assert!(e.op == 0 && e.val == sym);
    } else if sym == 256 {
        assert!(e.op & 32 != 0 && e.op & 16 == 0);
    } else if sym >= 286 {
        assert!(e.op & 64 != 0 && e.op & 48 == 0);
    } else {
        let li = (sym - 257) as usize;
        assert!(e.op & 16 != 0 && e.op & 0xe0 == 0 && (e.op & 15) == LEXT[li] && e.val == LBASE[li]);
    }
    let d: usize = kani::any();
    kani::assume(d < 32);
    let e = self::inffixed_tbl::DISTFIX[d];
    let dsym = rev(d as u64, 5) as usize;
    assert!(e.bits == 5);
    if dsym >= 30 {
        assert!(e.op & 64 != 0);
    } else {
        assert!(e.op & 16 != 0 && e.op & 0xe0 == 0 && (e.op & 15) == DEXT[dsym] && e.val == DBASE[dsym]);
    }
    kani::cover!(sym == 285);
}
