//! KB1 — inflateBack (`inflate::back`) on a typed stream: never touches memory outside the caller's window and the
//! slices handed out by the input callback, for every distance code (C19, C02).
use super::*;

pub(crate) struct InDesc {
    pub ptr: *const u8,
    pub len: u32,
    pub first: u32, // length of the first slice (callback slicing)
    pub calls: u32,
}
pub(crate) unsafe extern "C" fn in_cb(desc: *mut core::ffi::c_void, buf: *mut *const u8) -> u32 {
    let d = unsafe { &mut *(desc as *mut InDesc) };
    d.calls += 1;
    if d.calls == 1 {
        unsafe { *buf = d.ptr };
        d.first
    } else if d.calls == 2 && d.first < d.len {
        unsafe { *buf = d.ptr.add(d.first as usize) };
        d.len - d.first
    } else {
        0
    }
}
pub(crate) struct OutDesc {
    pub total: u32,
    pub calls: u32,
    pub abort_at: u32,
    pub last_ptr: usize,
    pub last_len: u32,
    pub data: [u8; 16],
}
pub(crate) unsafe extern "C" fn out_cb(desc: *mut core::ffi::c_void, buf: *mut u8, len: u32) -> i32 {
    let d = unsafe { &mut *(desc as *mut OutDesc) };
    d.calls += 1;
    d.last_ptr = buf as usize;
    d.last_len = len;
    let mut i = 0;
    while i < 16 {
        if (i as u32) < len && (d.total as usize + i) < 16 {
            d.data[d.total as usize + i] = unsafe { *buf.add(i) };
        }
        i += 1;
    }
    d.total += len;
    if d.calls == d.abort_at {
        1
    } else {
        0
    }
}

/// Final fixed block: six 9-bit literals (0x90..), the length-3 code, byte aligned after 8 bytes; then 2 symbolic
/// bytes carry the distance code and its extra bits: every distance 1..=32768 against a 256-byte window that holds
/// 6 bytes.  Memory safety (window is a typed local: any access outside it is a CBMC pointer failure), status, and
/// for in-window distances the bytes handed to `out`.
#[kani::proof]
#[kani::unwind(5)]
#[kani::stub(crate::inflate::inftrees::inflate_table, stub_table_unreachable)]
#[kani::stub(core::fmt::write, stub_fmt_write)]
#[kani::stub(core::panicking::panic_nounwind, stub_pn)]
#[kani::stub(core::panicking::panic_nounwind_fmt, stub_pnf)]
#[kani::stub(crate::inflate::infback::inflate_fast_back, stub_fast_back_unreachable)]
#[kani::stub(<[u16]>::fill, stub_fill_unreachable)]
fn kb1_back_distance() {
    let s0: u8 = kani::any();
    let s1: u8 = kani::any();
    let input: [u8; 10] = [0x9b, 0x30, 0x61, 0xc2, 0x84, 0x09, 0x13, 0x80, s0, s1];
    let mut win = [0xEEu8; 256];
    let mut state = State::new(&[], Writer::new(&mut []));
    state.window = unsafe { Window::from_raw_parts(win.as_mut_ptr(), 256) };
    state.wbits = 8;
    state.flags.update(Flags::SANE, true);
    let mut ind = InDesc { ptr: input.as_ptr(), len: 10, first: 10, calls: 0 };
    let mut outd = OutDesc { total: 0, calls: 0, abort_at: 0, last_ptr: 0, last_len: 0, data: [0; 16] };
    let mut strm = typed_stream(unsafe { &mut *(&mut state as *mut State) });
    let rc = unsafe {
        back(
            &mut strm,
            in_cb,
            &mut ind as *mut _ as *mut core::ffi::c_void,
            out_cb,
            &mut outd as *mut _ as *mut core::ffi::c_void,
        )
    };
    core::mem::forget(strm);
    core::mem::forget(state);
    assert!(matches!(rc, ReturnCode::StreamEnd | ReturnCode::DataError | ReturnCode::BufError));
    // reference: distance code = 5 bits MSB-first, then extra bits LSB-first
    let v = s0 as u32 | (s1 as u32) << 8;
    let dsym = ((v & 31) as u8).reverse_bits() >> 3;
    const DBASE: [u32; 30] = [1, 2, 3, 4, 5, 7, 9, 13, 17, 25, 33, 49, 65, 97, 129, 193, 257, 385, 513, 769, 1025, 1537, 2049, 3073, 4097, 6145, 8193, 12289, 16385, 24577];
    const DEXT: [u32; 30] = [0, 0, 0, 0, 1, 1, 2, 2, 3, 3, 4, 4, 5, 5, 6, 6, 7, 7, 8, 8, 9, 9, 10, 10, 11, 11, 12, 12, 13, 13];
    // everything given to `out` lies inside the caller's window
    if outd.calls > 0 {
        assert!(outd.last_ptr == win.as_ptr() as usize && outd.last_len <= 256);
    }
    if dsym >= 30 {
        assert!(rc == ReturnCode::DataError);
    } else if DEXT[dsym as usize] <= 11 {
        let dist = DBASE[dsym as usize] + ((v >> 5) & ((1 << DEXT[dsym as usize]) - 1));
        if dist > 6 {
            // reaches before the start of the data: rejected, the six literals are still delivered
            assert!(rc == ReturnCode::DataError);
            assert!(outd.total == 6);
        } else {
            // in-window stream: same bytes as inflate would produce (LZ77 semantics), then the input ends
            assert!(outd.total == 9);
            let lit = [0x90u8, 0x91, 0x92, 0x93, 0x94, 0x95];
            let mut i = 0;
            while i < 9 {
                let e = if i < 6 { lit[i] } else { outd.data[i - dist as usize] };
                assert!(outd.data[i] == e);
                i += 1;
            }
            assert!(matches!(rc, ReturnCode::BufError | ReturnCode::StreamEnd | ReturnCode::DataError));
        }
    }
    // the window's own bytes beyond what was produced are untouched
    let k: usize = kani::any();
    kani::assume(k >= 9 && k < 256);
    assert!(win[k] == 0xEE);
    kani::cover!(dsym == 29, "largest distance code");
    kani::cover!(dsym < 30 && rc == ReturnCode::DataError, "too-far distance rejected");
    kani::cover!(outd.total == 9, "in-window match copied");
}
