//! KB1 — inflateBack (`inflate::back`) on a typed stream: never touches memory outside the caller's window and the
//! slices handed out by the input callback, for every distance code and every value of its extra bits (C19, C02).
//!
//! `back()` always restarts in `Type`, and CBMC keeps the decoder's modes concrete only along fully concrete input
//! bytes (DESIGN.md §1).  Each instance therefore uses a concrete prefix that ends, byte aligned, right after the
//! 5-bit distance code: final fixed block, NLIT nine-bit literals (0x90, 0x91, ...), the length-3 code, distance code D.
//! The two bytes that follow are symbolic: every value of the (up to 13) extra bits, and whatever comes after.
use super::*;

pub(crate) struct InDesc {
    pub ptr: *const u8,
    pub len: u32,
    pub first: u32, // length of the first slice (callback slicing)
    pub calls: u32,
}
pub(crate) unsafe extern "C" fn in_cb(desc: *mut core::ffi::c_void, buf: *mut *const u8) -> u32 {
    let d = unsafe { &mut *(desc as *mut InDesc) };
    d.calls += 1;
    if d.calls == 1 {
        unsafe { *buf = d.ptr };
        d.first
    } else if d.calls == 2 && d.first < d.len {
        unsafe { *buf = d.ptr.add(d.first as usize) };
        d.len - d.first
    } else {
        0
    }
}
pub(crate) struct OutDesc {
    pub total: u32,
    pub calls: u32,
    pub last_ptr: usize,
    pub last_len: u32,
}
/// records what it is handed (the bytes themselves stay in the caller's window, where the harness reads them)
pub(crate) unsafe extern "C" fn out_cb(desc: *mut core::ffi::c_void, buf: *mut u8, len: u32) -> i32 {
    let d = unsafe { &mut *(desc as *mut OutDesc) };
    d.calls += 1;
    d.last_ptr = buf as usize;
    d.last_len = len;
    d.total += len;
    0
}

const DBASE: [u32; 30] = [1, 2, 3, 4, 5, 7, 9, 13, 17, 25, 33, 49, 65, 97, 129, 193, 257, 385, 513, 769, 1025, 1537, 2049, 3073, 4097, 6145, 8193, 12289, 16385, 24577];
const DEXT: [u32; 30] = [0, 0, 0, 0, 1, 1, 2, 2, 3, 3, 4, 4, 5, 5, 6, 6, 7, 7, 8, 8, 9, 9, 10, 10, 11, 11, 12, 12, 13, 13];

fn back_instance<const NP: usize, const NLIT: usize, const NSYM: usize>(prefix: [u8; NP], dsym: usize) {
    let mut input = [0u8; 16];
    let mut k = 0;
    while k < NP {
        input[k] = prefix[k];
        k += 1;
    }
    // just enough symbolic bytes to carry every value of the extra bits (fewer than 8 bits are left over, so at most
    // one more 7-bit symbol can be decoded afterwards)
    let s0: u8 = if NSYM >= 1 { kani::any() } else { 0 };
    let s1: u8 = if NSYM >= 2 { kani::any() } else { 0 };
    input[NP] = s0;
    input[NP + 1] = s1;
    let n_in = (NP + NSYM) as u32;
    let mut win = [0xEEu8; 256];
    let mut state = State::new(&[], Writer::new(&mut []));
    state.window = unsafe { Window::from_raw_parts(win.as_mut_ptr(), 256) };
    state.wbits = 8;
    state.flags.update(Flags::SANE, true);
    let mut ind = InDesc { ptr: input.as_ptr(), len: n_in, first: n_in, calls: 0 };
    let mut outd = OutDesc { total: 0, calls: 0, last_ptr: 0, last_len: 0 };
    let mut strm = typed_stream(unsafe { &mut *(&mut state as *mut State) });
    let rc = unsafe {
        back(
            &mut strm,
            in_cb,
            &mut ind as *mut _ as *mut core::ffi::c_void,
            out_cb,
            &mut outd as *mut _ as *mut core::ffi::c_void,
        )
    };
    core::mem::forget(strm);
    core::mem::forget(state);
    assert!(matches!(rc, ReturnCode::StreamEnd | ReturnCode::DataError | ReturnCode::BufError));
    // everything given to `out` lies inside the caller's window
    if outd.calls > 0 {
        assert!(outd.last_ptr == win.as_ptr() as usize && outd.last_len <= 256);
    }
    if dsym >= 30 {
        assert!(rc == ReturnCode::DataError);
        assert!(outd.total as usize == NLIT);
    } else {
        let v = s0 as u32 | (s1 as u32) << 8;
        let dist = (DBASE[dsym] + (v & ((1 << DEXT[dsym]) - 1))) as usize;
        if dist > NLIT {
            // reaches before the start of the data (and, for the large codes, beyond the window): rejected,
            // the literals decoded so far are still delivered
            assert!(rc == ReturnCode::DataError);
            assert!(outd.total as usize == NLIT);
        } else {
            // in-window stream: the bytes inflate would produce (LZ77 semantics)
            assert!(outd.total as usize >= NLIT + 3);
            assert!(outd.last_len == outd.total, "one delivery, starting at the window base");
            let mut i = 0;
            while i < NLIT + 3 {
                let e = if i < NLIT { 0x90 + i as u8 } else { win[i - dist] };
                assert!(win[i] == e);
                i += 1;
            }
        }
    }
    // the window's own bytes beyond what can have been produced are untouched (2 symbolic bytes decode to <= 2 more symbols)
    let k: usize = kani::any();
    kani::assume(k >= NLIT + 3 + 4 && k < 256);
    assert!(win[k] == 0xEE);
    // a rejection is reachable exactly for the instances whose largest distance exceeds the data produced so far
    kani::cover!(rc == ReturnCode::DataError || (dsym < 30 && (DBASE[dsym] + ((1 << DEXT[dsym]) - 1)) as usize <= NLIT), "too-far distance rejected");
    kani::cover!(dsym >= 30 || DBASE[dsym] as usize > NLIT || outd.total as usize >= NLIT + 3, "in-window match copied");
}

macro_rules! kb1_harness {
    ($name:ident, $np:expr, $nlit:expr, $nsym:expr, $prefix:expr, $dsym:expr) => {
        #[kani::proof]
        #[kani::unwind(5)]
        #[kani::stub(crate::inflate::inftrees::inflate_table, stub_table_unreachable)]
        #[kani::stub(core::fmt::write, stub_fmt_write)]
        #[kani::stub(core::panicking::panic_nounwind, stub_pn)]
        #[kani::stub(core::panicking::panic_nounwind_fmt, stub_pnf)]
        #[kani::stub(crate::inflate::infback::inflate_fast_back, stub_fast_back_unreachable)]
        #[kani::stub(<[u16]>::fill, stub_fill_unreachable)]
        fn $name() {
            back_instance::<$np, $nlit, $nsym>($prefix, $dsym);
        }
    };
}
kb1_harness!(kb1_back_lit1_d0, 3, 1, 0, [0x9b, 0x00, 0x04], 0);
kb1_harness!(kb1_back_lit1_d1, 3, 1, 0, [0x9b, 0x00, 0x84], 1);
kb1_harness!(kb1_back_lit1_d2, 3, 1, 0, [0x9b, 0x00, 0x44], 2);
kb1_harness!(kb1_back_lit1_d3, 3, 1, 0, [0x9b, 0x00, 0xc4], 3);
kb1_harness!(kb1_back_lit1_d4, 3, 1, 1, [0x9b, 0x00, 0x24], 4);
kb1_harness!(kb1_back_lit1_d5, 3, 1, 1, [0x9b, 0x00, 0xa4], 5);
kb1_harness!(kb1_back_lit1_d6, 3, 1, 1, [0x9b, 0x00, 0x64], 6);
kb1_harness!(kb1_back_lit1_d7, 3, 1, 1, [0x9b, 0x00, 0xe4], 7);
kb1_harness!(kb1_back_lit1_d8, 3, 1, 1, [0x9b, 0x00, 0x14], 8);
kb1_harness!(kb1_back_lit1_d9, 3, 1, 1, [0x9b, 0x00, 0x94], 9);
kb1_harness!(kb1_back_lit1_d10, 3, 1, 1, [0x9b, 0x00, 0x54], 10);
kb1_harness!(kb1_back_lit1_d11, 3, 1, 1, [0x9b, 0x00, 0xd4], 11);
kb1_harness!(kb1_back_lit1_d12, 3, 1, 1, [0x9b, 0x00, 0x34], 12);
kb1_harness!(kb1_back_lit1_d13, 3, 1, 1, [0x9b, 0x00, 0xb4], 13);
kb1_harness!(kb1_back_lit1_d14, 3, 1, 1, [0x9b, 0x00, 0x74], 14);
kb1_harness!(kb1_back_lit1_d15, 3, 1, 1, [0x9b, 0x00, 0xf4], 15);
kb1_harness!(kb1_back_lit1_d16, 3, 1, 1, [0x9b, 0x00, 0x0c], 16);
kb1_harness!(kb1_back_lit1_d17, 3, 1, 1, [0x9b, 0x00, 0x8c], 17);
kb1_harness!(kb1_back_lit1_d18, 3, 1, 1, [0x9b, 0x00, 0x4c], 18);
kb1_harness!(kb1_back_lit1_d19, 3, 1, 1, [0x9b, 0x00, 0xcc], 19);
kb1_harness!(kb1_back_lit1_d20, 3, 1, 2, [0x9b, 0x00, 0x2c], 20);
kb1_harness!(kb1_back_lit1_d21, 3, 1, 2, [0x9b, 0x00, 0xac], 21);
kb1_harness!(kb1_back_lit1_d22, 3, 1, 2, [0x9b, 0x00, 0x6c], 22);
kb1_harness!(kb1_back_lit1_d23, 3, 1, 2, [0x9b, 0x00, 0xec], 23);
kb1_harness!(kb1_back_lit1_d24, 3, 1, 2, [0x9b, 0x00, 0x1c], 24);
kb1_harness!(kb1_back_lit1_d25, 3, 1, 2, [0x9b, 0x00, 0x9c], 25);
kb1_harness!(kb1_back_lit1_d26, 3, 1, 2, [0x9b, 0x00, 0x5c], 26);
kb1_harness!(kb1_back_lit1_d27, 3, 1, 2, [0x9b, 0x00, 0xdc], 27);
kb1_harness!(kb1_back_lit1_d28, 3, 1, 2, [0x9b, 0x00, 0x3c], 28);
kb1_harness!(kb1_back_lit1_d29, 3, 1, 2, [0x9b, 0x00, 0xbc], 29);
kb1_harness!(kb1_back_lit1_d30, 3, 1, 0, [0x9b, 0x00, 0x7c], 30);
kb1_harness!(kb1_back_lit1_d31, 3, 1, 0, [0x9b, 0x00, 0xfc], 31);
kb1_harness!(kb1_back_lit9_d0, 12, 9, 0, [0x9b, 0x30, 0x71, 0xd2, 0xe4, 0x29, 0x53, 0xa7, 0x4d, 0x9f, 0x01, 0x04], 0);
kb1_harness!(kb1_back_lit9_d1, 12, 9, 0, [0x9b, 0x30, 0x71, 0xd2, 0xe4, 0x29, 0x53, 0xa7, 0x4d, 0x9f, 0x01, 0x84], 1);
kb1_harness!(kb1_back_lit9_d2, 12, 9, 0, [0x9b, 0x30, 0x71, 0xd2, 0xe4, 0x29, 0x53, 0xa7, 0x4d, 0x9f, 0x01, 0x44], 2);
kb1_harness!(kb1_back_lit9_d3, 12, 9, 0, [0x9b, 0x30, 0x71, 0xd2, 0xe4, 0x29, 0x53, 0xa7, 0x4d, 0x9f, 0x01, 0xc4], 3);
kb1_harness!(kb1_back_lit9_d4, 12, 9, 1, [0x9b, 0x30, 0x71, 0xd2, 0xe4, 0x29, 0x53, 0xa7, 0x4d, 0x9f, 0x01, 0x24], 4);
kb1_harness!(kb1_back_lit9_d5, 12, 9, 1, [0x9b, 0x30, 0x71, 0xd2, 0xe4, 0x29, 0x53, 0xa7, 0x4d, 0x9f, 0x01, 0xa4], 5);
kb1_harness!(kb1_back_lit9_d6, 12, 9, 1, [0x9b, 0x30, 0x71, 0xd2, 0xe4, 0x29, 0x53, 0xa7, 0x4d, 0x9f, 0x01, 0x64], 6);
kb1_harness!(kb1_back_lit9_d7, 12, 9, 1, [0x9b, 0x30, 0x71, 0xd2, 0xe4, 0x29, 0x53, 0xa7, 0x4d, 0x9f, 0x01, 0xe4], 7);

// ---------------------------------------------------------------------------------------------------------------
// after the window has been flushed once.  `back()` takes every size from `window.buffer_size()` (never from `wbits`),
// so the same code is driven with a 16-byte window (a reduced instance; the public API only creates 256..32768): a
// non-final stored block of exactly W bytes (data[k] = k) fills and flushes the window, then the final fixed block
// (1 literal, length 3, distance code D + symbolic extra bits).  Every distance up to W is valid now and must copy
// from the ring; larger ones must be rejected.  (The 256-byte version of this harness did not finish in 1800 s.)
const WW: usize = 16;
const WIN_IN: usize = 5 + WW + 3 + 2;
const fn wrapped_input(dsym: u8) -> [u8; WIN_IN] {
    let mut a = [0u8; WIN_IN];
    a[0] = 0x00; // BFINAL = 0, BTYPE = 00
    a[1] = WW as u8; // LEN
    a[2] = 0x00;
    a[3] = !(WW as u8); // NLEN
    a[4] = 0xff;
    let mut k = 0;
    while k < WW {
        a[5 + k] = k as u8;
        k += 1;
    }
    // BFINAL = 1, BTYPE = 01, literal 0x90 (9 bits), length symbol 257 (7 bits), distance code (5 bits, MSB first)
    a[5 + WW] = 0x9b;
    a[6 + WW] = 0x00;
    let rev = ((dsym & 1) << 4) | ((dsym & 2) << 2) | (dsym & 4) | ((dsym & 8) >> 2) | ((dsym & 16) >> 4);
    a[7 + WW] = 0x04 | (rev << 3);
    a
}

fn back_wrapped_instance<const NSYM: usize>(input0: [u8; WIN_IN], dsym: usize) {
    let mut input = input0;
    let s0: u8 = if NSYM >= 1 { kani::any() } else { 0 };
    input[8 + WW] = s0;
    let mut win = [0xEEu8; WW];
    let mut state = State::new(&[], Writer::new(&mut []));
    state.window = unsafe { Window::from_raw_parts(win.as_mut_ptr(), WW) };
    state.wbits = 8;
    state.flags.update(Flags::SANE, true);
    let n = (8 + WW + NSYM) as u32;
    let mut ind = InDesc { ptr: input.as_ptr(), len: n, first: n, calls: 0 };
    let mut outd = OutDesc { total: 0, calls: 0, last_ptr: 0, last_len: 0 };
    let mut strm = typed_stream(unsafe { &mut *(&mut state as *mut State) });
    let rc = unsafe {
        back(
            &mut strm,
            in_cb,
            &mut ind as *mut _ as *mut core::ffi::c_void,
            out_cb,
            &mut outd as *mut _ as *mut core::ffi::c_void,
        )
    };
    core::mem::forget(strm);
    core::mem::forget(state);
    assert!(matches!(rc, ReturnCode::StreamEnd | ReturnCode::DataError | ReturnCode::BufError));
    assert!(outd.calls >= 1 && outd.last_ptr == win.as_ptr() as usize && outd.last_len as usize <= WW);
    let dist = (DBASE[dsym] + (s0 as u32 & ((1 << DEXT[dsym]) - 1))) as usize;
    if dist > WW {
        // beyond the window: rejected; the stored block and the literal were delivered
        assert!(rc == ReturnCode::DataError && outd.total as usize == WW + 1);
    } else {
        // valid for this window: inflate would accept it, so must inflateBack, and copy from the ring
        assert!(outd.total as usize >= WW + 4, "a distance within the window is accepted after the window has wrapped");
        // history in stream order: H[k] = k for the W stored bytes, H[W] = the literal 0x90, H[W + 1 + t] = H[W + 1 + t - dist];
        // stream position k lives in window slot k % W
        let mut m = [0u8; 3];
        let mut t = 0;
        while t < 3 {
            let src = WW + 1 + t - dist;
            m[t] = if src < WW {
                src as u8
            } else if src == WW {
                0x90
            } else {
                m[src - WW - 1]
            };
            assert!(win[(WW + 1 + t) % WW] == m[t]);
            t += 1;
        }
        assert!(win[0] == 0x90);
    }
    kani::cover!(rc == ReturnCode::DataError || DBASE[dsym] as usize + ((1usize << DEXT[dsym]) - 1) <= WW);
    kani::cover!(DBASE[dsym] as usize > WW || outd.total as usize >= WW + 4);
}

macro_rules! kb1_wrapped_harness {
    ($name:ident, $nsym:expr, $dsym:expr) => {
        #[kani::proof]
        #[kani::unwind(5)]
        #[kani::stub(crate::inflate::inftrees::inflate_table, stub_table_unreachable)]
        #[kani::stub(core::fmt::write, stub_fmt_write)]
        #[kani::stub(core::panicking::panic_nounwind, stub_pn)]
        #[kani::stub(core::panicking::panic_nounwind_fmt, stub_pnf)]
        #[kani::stub(crate::inflate::infback::inflate_fast_back, stub_fast_back_unreachable)]
        #[kani::stub(<[u16]>::fill, stub_fill_unreachable)]
        fn $name() {
            const INPUT: [u8; WIN_IN] = wrapped_input($dsym); // evaluated by rustc, no run-time loop
            back_wrapped_instance::<$nsym>(INPUT, $dsym);
        }
    };
}
kb1_wrapped_harness!(kb1_back_wrapped_d0, 0, 0);
kb1_wrapped_harness!(kb1_back_wrapped_d1, 0, 1);
kb1_wrapped_harness!(kb1_back_wrapped_d3, 0, 3);
kb1_wrapped_harness!(kb1_back_wrapped_d5, 1, 5);
kb1_wrapped_harness!(kb1_back_wrapped_d6, 1, 6);
kb1_wrapped_harness!(kb1_back_wrapped_d7, 1, 7);
kb1_wrapped_harness!(kb1_back_wrapped_d8, 1, 8);

// ---------------------------------------------------------------------------------------------------------------
// the output callback may refuse a delivery (zlib.h: a non-zero return makes inflateBack return Z_BUF_ERROR).  Same stream
// as above (16-byte window, distance 1): the callback refuses the window-full flush, or the final partial flush, or nothing.
// Whatever it refuses is handed out once: a refusal ends the call, no further delivery follows it.
pub(crate) struct OutAbort {
    pub calls: u32,
    pub total: u32,
    pub refuse_at: u32,
    pub calls_after_refusal: u32,
}
pub(crate) unsafe extern "C" fn out_cb_refusing(desc: *mut core::ffi::c_void, _buf: *mut u8, len: u32) -> i32 {
    let d = unsafe { &mut *(desc as *mut OutAbort) };
    if d.refuse_at != 0 && d.calls >= d.refuse_at {
        d.calls_after_refusal += 1;
    }
    d.calls += 1;
    d.total += len;
    (d.calls == d.refuse_at) as i32
}

#[kani::proof]
#[kani::unwind(5)]
#[kani::stub(crate::inflate::inftrees::inflate_table, stub_table_unreachable)]
#[kani::stub(core::fmt::write, stub_fmt_write)]
#[kani::stub(core::panicking::panic_nounwind, stub_pn)]
#[kani::stub(core::panicking::panic_nounwind_fmt, stub_pnf)]
#[kani::stub(crate::inflate::infback::inflate_fast_back, stub_fast_back_unreachable)]
#[kani::stub(<[u16]>::fill, stub_fill_unreachable)]
fn kb1_back_output_refused() {
    const INPUT: [u8; WIN_IN] = wrapped_input(0);
    let input = INPUT;
    let mut win = [0xEEu8; WW];
    let mut state = State::new(&[], Writer::new(&mut []));
    state.window = unsafe { Window::from_raw_parts(win.as_mut_ptr(), WW) };
    state.wbits = 8;
    state.flags.update(Flags::SANE, true);
    let n = (9 + WW) as u32; // one more (zero) byte: the 7-bit end-of-block code
    let mut ind = InDesc { ptr: input.as_ptr(), len: n, first: n, calls: 0 };
    let refuse_at: u32 = kani::any();
    kani::assume(refuse_at <= 2);
    let mut outd = OutAbort { calls: 0, total: 0, refuse_at, calls_after_refusal: 0 };
    let mut strm = typed_stream(unsafe { &mut *(&mut state as *mut State) });
    let rc = unsafe {
        back(
            &mut strm,
            in_cb,
            &mut ind as *mut _ as *mut core::ffi::c_void,
            out_cb_refusing,
            &mut outd as *mut _ as *mut core::ffi::c_void,
        )
    };
    core::mem::forget(strm);
    core::mem::forget(state);
    assert!(outd.calls_after_refusal == 0, "nothing is delivered after the callback refused a delivery");
    if refuse_at == 0 {
        assert!(rc == ReturnCode::StreamEnd && outd.calls == 2 && outd.total as usize == WW + 4);
    } else {
        assert!(rc == ReturnCode::BufError);
        assert!(outd.calls == refuse_at);
        assert!(outd.total as usize == if refuse_at == 1 { WW } else { WW + 4 }, "every byte is handed out once");
    }
    kani::cover!(refuse_at == 1);
    kani::cover!(refuse_at == 2);
}

// ---------------------------------------------------------------------------------------------------------------
// the fast loop of inflateBack (entered with >= 15 input bytes and >= 260 bytes of window left) must give the same verdict
// as the slow path: a distance that reaches before the start of the data is rejected, also when part of the output was
// produced by the slow path before the fast loop is entered (input delivered as a 1-byte first slice + the rest).
// The real fast loop does not finish here even on fully concrete input (1800 s), so it is replaced by a contract stub:
// it asserts what the loop relies on from its caller — `window.have()` is the amount of history *before* the window buffer,
// i.e. 0 until the buffer has been flushed once, the whole window afterwards — and then answers as the real loop does for
// this input when the contract holds (`dist - written > have` => "invalid distance too far back").  In the s2 instance the
// match is decoded by the slow path and the fast loop is not reached before the verdict.
pub(crate) unsafe fn stub_fast_back_contract(state: &mut State) {
    let have = state.window.have();
    assert!(have == 0 || have == state.window.buffer_size(), "inflate_fast_back: window.have() counts history before the window buffer only");
    state.mode = Mode::Bad;
    state.error_message = Some("invalid distance too far back\0");
}

const FAST_TOOFAR: [u8; 44] = [
    0x4b, 0x04, 0xc2, 0xa4, 0xe4, 0x94, 0xd4, 0xb4, 0xa4, 0xe4, 0x94, 0xd4, 0xb4, 0xa4, 0xe4, 0x94, 0xd4, 0xb4, 0xa4, 0xe4, 0x94, 0xd4,
    0xb4, 0xa4, 0xe4, 0x94, 0xd4, 0xb4, 0xa4, 0xe4, 0x94, 0xd4, 0xb4, 0xa4, 0xe4, 0x94, 0xd4, 0xb4, 0xa4, 0xe4, 0x94, 0xd4, 0x34, 0x00,
];

fn back_fast_toofar_instance(first: u32) {
    let input = FAST_TOOFAR; // final fixed block: literal 'a', length 3 at distance 2, 40 literals, end of block
    let mut win = [0xEEu8; 512];
    let mut state = State::new(&[], Writer::new(&mut []));
    state.window = unsafe { Window::from_raw_parts(win.as_mut_ptr(), 512) };
    state.wbits = 9;
    state.flags.update(Flags::SANE, true);
    let mut ind = InDesc { ptr: input.as_ptr(), len: 44, first, calls: 0 };
    let mut outd = OutDesc { total: 0, calls: 0, last_ptr: 0, last_len: 0 };
    let mut strm = typed_stream(unsafe { &mut *(&mut state as *mut State) });
    let rc = unsafe {
        back(
            &mut strm,
            in_cb,
            &mut ind as *mut _ as *mut core::ffi::c_void,
            out_cb,
            &mut outd as *mut _ as *mut core::ffi::c_void,
        )
    };
    core::mem::forget(strm);
    core::mem::forget(state);
    assert!(rc == ReturnCode::DataError, "a distance of 2 with one byte of data is invalid, whichever path decodes it");
    assert!(outd.total == 1 && win[0] == b'a', "the literal before it is still delivered");
    assert!(win[1] == 0xEE && win[511] == 0xEE);
    kani::cover!(ind.calls == 2);
}

macro_rules! kb1_fast_toofar_harness {
    ($name:ident, $first:expr) => {
        #[kani::proof]
        #[kani::unwind(5)]
        #[kani::stub(crate::inflate::inftrees::inflate_table, stub_table_unreachable)]
        #[kani::stub(core::fmt::write, stub_fmt_write)]
        #[kani::stub(core::panicking::panic_nounwind, stub_pn)]
        #[kani::stub(core::panicking::panic_nounwind_fmt, stub_pnf)]
        #[kani::stub(crate::inflate::infback::inflate_fast_back, stub_fast_back_contract)]
        #[kani::stub(<[u16]>::fill, stub_fill_unreachable)]
        fn $name() {
            back_fast_toofar_instance($first);
        }
    };
}
kb1_fast_toofar_harness!(kb1_back_fast_toofar_s1, 1);
kb1_fast_toofar_harness!(kb1_back_fast_toofar_s2, 2);
