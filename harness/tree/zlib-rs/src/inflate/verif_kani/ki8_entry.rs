//! KI8 — small inflate entry points on a typed state: prime, sync, sync_point, mark, validate, undermine, codes_used,
//! reset family, get_header (C14, C16, C02).
use super::*;

/// reset == fresh: from a state with every scalar arbitrary, `reset_with_config` gives the same state as on a
/// freshly constructed `State` (what `init()` builds) for the same window_bits.
#[kani::proof]
#[kani::unwind(6)]
#[kani::stub(core::fmt::write, stub_fmt_write)]
#[kani::stub(core::panicking::panic_nounwind, stub_pn)]
#[kani::stub(core::panicking::panic_nounwind_fmt, stub_pnf)]
fn ki8_reset_equals_fresh() {
    let mut wina = [0u8; 8 + 64];
    let mut winb = [0u8; 8 + 64];
    let mut a = typed_state(&mut wina, 0, Mode::Head);
    let mut b = State::new(&[], Writer::new(&mut []));
    b.window = unsafe { Window::from_raw_parts(winb.as_mut_ptr(), 8 + 64) };
    b.chunksize = 32;
    // dirty `a`: any previous history
    a.mode = match kani::any::<u8>() % 8 {
        0 => Mode::Head,
        1 => Mode::Name,
        2 => Mode::CopyBlock,
        3 => Mode::Match,
        4 => Mode::Check,
        5 => Mode::Done,
        6 => Mode::Bad,
        _ => Mode::Sync,
    };
    a.wrap = kani::any();
    a.wbits = kani::any();
    a.flags = Flags(kani::any::<u8>() & 15);
    a.total = kani::any();
    a.length = kani::any();
    a.offset = kani::any();
    a.extra = kani::any();
    a.back = kani::any();
    a.was = kani::any();
    a.gzip_flags = kani::any();
    a.checksum = kani::any();
    a.dmax = kani::any();
    a.next = kani::any();
    a.have = kani::any();
    a.ncode = kani::any();
    a.nlen = kani::any();
    a.ndist = kani::any();
    a.len_table = Table { codes: Codes::Len, bits: kani::any() };
    a.dist_table = Table { codes: Codes::Dist, bits: kani::any() };
    a.error_message = if kani::any() { Some("x\0") } else { None };
    a.bit_reader.prime(kani::any::<u8>() % 32, kani::any());
    unsafe { a.window.set_have(kani::any::<usize>() % 9) };
    let mut sa = typed_stream(unsafe { &mut *(&mut a as *mut State) });
    let mut sb = typed_stream(unsafe { &mut *(&mut b as *mut State) });
    sa.total_in = kani::any();
    sa.total_out = kani::any();
    sa.adler = kani::any();
    let wb: i32 = kani::any();
    let cfg = InflateConfig { window_bits: wb };
    let (wrap0, wbits0) = (sa.state.wrap, sa.state.wbits);
    let ra = reset_with_config(&mut sa, cfg);
    let rb = reset_with_config(&mut sb, cfg);
    assert!(ra == rb);
    // accepted window_bits: -15..=-8, 0, 8..=15, 24..=31 (gzip), 40..=47 (auto), as documented for inflateInit2
    let ok = (wb >= -15 && wb <= -8) || wb == 0 || (wb >= 8 && wb <= 15) || (wb >= 24 && wb <= 31) || (wb >= 40 && wb <= 47)
        || wb == 16 || wb == 32;
    if ra == ReturnCode::Ok {
        let (x, y) = (&sa.state, &sb.state);
        assert!(x.wrap == y.wrap && x.wbits == y.wbits);
        assert!(matches!(x.mode, Mode::Head));
        assert!(x.flags.0 == y.flags.0 && x.total == y.total && x.gzip_flags == y.gzip_flags && x.checksum == y.checksum);
        assert!(x.dmax == y.dmax && x.next == y.next && x.back == y.back);
        assert!(x.bit_reader.bits_in_buffer() == 0 && x.bit_reader.hold() == 0);
        assert!(x.window.have() == 0 && x.window.next() == 0);
        assert!(x.head.is_none() && x.error_message.is_none());
        assert!(matches!(x.len_table.codes, Codes::Fixed) && x.len_table.bits == y.len_table.bits);
        assert!(sa.total_in == 0 && sa.total_out == 0 && sa.msg.is_null());
        assert!(x.wrap == 0 || sa.adler as u32 == (x.wrap & 1) as u32);
    } else {
        assert!(ra == ReturnCode::StreamError);
        // a refused inflateReset2 leaves the live stream as it was (zlib stores the new values only after its checks)
        assert!(sa.state.wrap == wrap0 && sa.state.wbits == wbits0, "a refused reset changes nothing");
    }
    assert!(ok || ra == ReturnCode::StreamError);
    kani::cover!(ra == ReturnCode::Ok && wb == 47);
    kani::cover!(ra == ReturnCode::StreamError && wb == 7);
    core::mem::forget(sa);
    core::mem::forget(sb);
    core::mem::forget(a);
    core::mem::forget(b);
}

/// inflateResetKeep on its own (the entry point C16 lists, also what `inflateReset` builds on): from any state it forgets
/// the stream — totals, message, mode, last-block and dictionary flags, header state, bit register, code tables — and keeps
/// the window and the configuration.  Rule table transcribed from zlib-ng's inflateResetKeep.
#[kani::proof]
#[kani::unwind(6)]
#[kani::stub(core::fmt::write, stub_fmt_write)]
#[kani::stub(core::panicking::panic_nounwind, stub_pn)]
#[kani::stub(core::panicking::panic_nounwind_fmt, stub_pnf)]
fn ki8_reset_keep_forgets_the_stream() {
    let mut wina = [0u8; 8 + 64];
    let mut a = typed_state(&mut wina, 0, Mode::Head);
    a.mode = match kani::any::<u8>() % 8 {
        0 => Mode::Head,
        1 => Mode::Dict,
        2 => Mode::CopyBlock,
        3 => Mode::Match,
        4 => Mode::Check,
        5 => Mode::Done,
        6 => Mode::Bad,
        _ => Mode::Sync,
    };
    let wrap: u8 = kani::any();
    let wbits: u8 = kani::any();
    a.wrap = wrap;
    a.wbits = wbits;
    a.flags = Flags(kani::any::<u8>() & 15);
    let from_header = a.flags.contains(Flags::WBITS_FROM_HEADER);
    a.total = kani::any();
    a.back = kani::any();
    a.gzip_flags = kani::any();
    a.checksum = kani::any();
    a.next = kani::any();
    a.len_table = Table { codes: Codes::Len, bits: kani::any() };
    a.dist_table = Table { codes: Codes::Dist, bits: kani::any() };
    a.bit_reader.prime(kani::any::<u8>() % 32, kani::any());
    let have = kani::any::<usize>() % 9;
    unsafe { a.window.set_have(have) };
    let mut sa = typed_stream(unsafe { &mut *(&mut a as *mut State) });
    sa.total_in = kani::any();
    sa.total_out = kani::any();
    let adler0: u32 = kani::any();
    sa.adler = adler0 as _;
    let r = reset_keep(&mut sa);
    assert!(r == ReturnCode::Ok);
    let x = &sa.state;
    assert!(sa.total_in == 0 && sa.total_out == 0 && x.total == 0 && sa.msg.is_null());
    assert!(if wrap != 0 { sa.adler as u32 == (wrap & 1) as u32 } else { sa.adler as u32 == adler0 });
    assert!(matches!(x.mode, Mode::Head));
    assert!(!x.flags.contains(Flags::IS_LAST_BLOCK), "last = 0");
    assert!(!x.flags.contains(Flags::HAVE_DICT), "havedict = 0: the next stream is asked for its dictionary again");
    assert!(x.flags.contains(Flags::SANE));
    assert!(x.flags.contains(Flags::WBITS_FROM_HEADER) == from_header);
    assert!(x.gzip_flags == -1 && x.head.is_none());
    assert!(x.bit_reader.bits_in_buffer() == 0 && x.bit_reader.hold() == 0);
    assert!(x.next == 0 && x.back == usize::MAX);
    assert!(matches!(x.len_table.codes, Codes::Fixed) && matches!(x.dist_table.codes, Codes::Fixed));
    // kept: configuration and window
    assert!(x.wrap == wrap && x.wbits == wbits && x.window.have() == have);
    core::mem::forget(sa);
    core::mem::forget(a);
}

/// prime / validate / undermine / mark / sync_point / codes_used / get_header: any integer arguments, documented effect
#[kani::proof]
#[kani::unwind(6)]
#[kani::stub(core::fmt::write, stub_fmt_write)]
#[kani::stub(core::panicking::panic_nounwind, stub_pn)]
#[kani::stub(core::panicking::panic_nounwind_fmt, stub_pnf)]
fn ki8_small_entry_points() {
    let mut win = [0u8; 8 + 64];
    let wrap: u8 = kani::any();
    kani::assume(wrap <= 7);
    let mut state = typed_state(&mut win, wrap, Mode::Stored);
    let nb0: u8 = kani::any();
    kani::assume(nb0 <= 31);
    let v0: u64 = kani::any();
    state.bit_reader.prime(nb0, v0);
    let hold0 = state.bit_reader.hold();
    let mut io = [0u8; 2];
    let mut strm = typed_stream(unsafe { &mut *(&mut state as *mut State) });
    strm.next_in = io.as_mut_ptr();
    strm.next_out = io.as_mut_ptr();
    // inflatePrime
    let bits: i32 = kani::any();
    let value: i32 = kani::any();
    let rc = prime(&mut strm, bits, value);
    if bits == 0 {
        assert!(rc == ReturnCode::Ok && strm.state.bit_reader.bits_in_buffer() == nb0);
    } else if bits < 0 {
        assert!(rc == ReturnCode::Ok && strm.state.bit_reader.bits_in_buffer() == 0 && strm.state.bit_reader.hold() == 0);
    } else if bits > 16 || nb0 as i32 + bits > 32 {
        assert!(rc == ReturnCode::StreamError && strm.state.bit_reader.bits_in_buffer() == nb0 && strm.state.bit_reader.hold() == hold0);
    } else {
        assert!(rc == ReturnCode::Ok);
        assert!(strm.state.bit_reader.bits_in_buffer() as i32 == nb0 as i32 + bits);
        let add = (value as u64) & ((1u64 << bits) - 1);
        assert!(strm.state.bit_reader.hold() == hold0 + (add << nb0));
    }
    // sync_point: only at a stored-block header with an empty register
    let sp = sync_point(&mut strm);
    assert!(sp == (strm.state.bit_reader.bits_in_buffer() == 0));
    // validate toggles bit 2 of wrap only for wrapped streams
    let chk: bool = kani::any();
    assert!(validate(&mut strm, chk) == ReturnCode::Ok);
    assert!(strm.state.wrap & 3 == wrap & 3);
    assert!((strm.state.wrap & 4 != 0) == (chk && wrap != 0));
    // undermine: any subvert value
    let sub: i32 = kani::any();
    assert!(undermine(&mut strm, sub) == ReturnCode::Ok);
    assert!(strm.state.flags.contains(Flags::SANE), "distance checking stays on: the mode that accepts invalid distances is not implemented, the decoder panics where it would start");
    // mark: never aborts, encodes `back` and the progress inside a block
    strm.state.back = kani::any::<usize>() % 0x8000;
    strm.state.length = kani::any::<usize>() % 65536;
    let mk = mark(&strm);
    assert!(mk == ((strm.state.back as core::ffi::c_long) << 16));
    strm.state.mode = Mode::CopyBlock;
    let mk = mark(&strm);
    assert!(mk == ((strm.state.back as core::ffi::c_long) << 16) + strm.state.length as core::ffi::c_long);
    let _ = codes_used(&strm);
    // get_header: only gzip-capable streams accept a capture struct; `done` starts at 0
    let mut head = gz_header::default();
    head.done = 7;
    let r = unsafe { get_header(&mut strm, Some(&mut *(&mut head as *mut gz_header))) };
    if strm.state.wrap & 2 == 0 {
        assert!(r == ReturnCode::StreamError && head.done == 7 && strm.state.head.is_none());
    } else {
        assert!(r == ReturnCode::Ok && head.done == 0 && strm.state.head.is_some());
    }
    kani::cover!(rc == ReturnCode::StreamError && bits == 16);
    kani::cover!(rc == ReturnCode::Ok && bits == 16 && nb0 == 16);
    core::mem::forget(strm);
    core::mem::forget(state);
}

/// inflateSync: scans the bytes still in the bit register and then the input for 00 00 FF FF, consumes up to and
/// including the marker, never beyond the input; Z_BUF_ERROR only when there is nothing at all to scan
/// (no input and fewer than 8 bits in the register).
#[kani::proof]
#[kani::unwind(10)]
#[kani::stub(core::fmt::write, stub_fmt_write)]
#[kani::stub(core::panicking::panic_nounwind, stub_pn)]
#[kani::stub(core::panicking::panic_nounwind_fmt, stub_pnf)]
fn ki8_sync() {
    const NI: usize = 6;
    let mut input: [u8; NI] = kani::any();
    let n_in: u32 = kani::any();
    kani::assume(n_in as usize <= NI);
    let mut win = [0u8; 8 + 64];
    let wrap: u8 = kani::any();
    kani::assume(wrap <= 7);
    let mut state = typed_state(&mut win, wrap, Mode::Len);
    let hdr_seen: bool = kani::any();
    state.gzip_flags = if hdr_seen { 0 } else { -1 };
    // the bit register: empty, a few stray bits, exactly one whole byte, or stray bits below a whole byte (the stray
    // bits are what is left of a partially consumed byte: zlib discards them, `hold >>= bits & 7`)
    let nb: u8 = kani::any();
    kani::assume(nb == 0 || nb == 5 || nb == 8 || nb == 13);
    let rv: u8 = kani::any();
    let stray: u8 = kani::any();
    if nb == 13 {
        state.bit_reader.prime(13, ((rv as u64) << 5) | (stray & 31) as u64);
    } else {
        state.bit_reader.prime(nb, rv as u64);
    }
    let mut strm = typed_stream(unsafe { &mut *(&mut state as *mut State) });
    strm.next_in = input.as_mut_ptr();
    strm.avail_in = n_in;
    strm.next_out = input.as_mut_ptr();
    strm.total_in = 100;
    strm.total_out = 50;
    let rc = sync(&mut strm);
    let used = (n_in - strm.avail_in) as usize;
    assert!(strm.avail_in <= n_in && strm.next_in as usize == input.as_ptr() as usize + used);
    assert!(strm.total_in == 100 + used as crate::c_api::z_size);
    // reference scan over: [register byte, if a whole one is held] ++ input
    let pre = if nb >= 8 { 1 } else { 0 };
    let mut c = [0u8; NI + 1];
    let mut i = 0;
    while i < NI + 1 {
        c[i] = if i < pre { rv } else if i - pre < NI { input[i - pre] } else { 0 };
        i += 1;
    }
    let total = pre + n_in as usize;
    let mut pos = NI + 2;
    let mut i = 0;
    while i + 4 <= NI + 1 {
        if pos > NI + 1 && i + 4 <= total && c[i] == 0 && c[i + 1] == 0 && c[i + 2] == 0xff && c[i + 3] == 0xff {
            pos = i;
        }
        i += 1;
    }
    if n_in == 0 && nb < 8 {
        assert!(rc == ReturnCode::BufError);
    } else if pos <= NI + 1 {
        assert!(rc == ReturnCode::Ok && used == pos + 4 - pre);
        assert!(matches!(strm.state.mode, Mode::Type));
        assert!(strm.total_out == 50);
        // no header seen yet => continue as raw; otherwise checking is switched off
        assert!(strm.state.wrap == if hdr_seen { wrap & !4 } else { 0 });
    } else {
        // there was something to scan but no marker: data error, searching state kept for the next call
        assert!(rc == ReturnCode::DataError && used == n_in as usize && matches!(strm.state.mode, Mode::Sync));
    }
    kani::cover!(rc == ReturnCode::Ok && used == 6);
    kani::cover!(rc == ReturnCode::DataError && n_in == 0 && nb == 8, "only the register byte to scan");
    kani::cover!(rc == ReturnCode::Ok && nb == 8 && used == 3, "marker starts in the register");
    kani::cover!(rc == ReturnCode::Ok && nb == 13 && used == 3 && stray & 31 != 0, "marker starts in an unaligned register");
    core::mem::forget(strm);
    core::mem::forget(state);
}

/// inflateSync followed by inflate(): the running totals keep counting from where they were (zlib.h: inflateSync
/// preserves total_in/total_out; C15: totals equal the sums over all calls), and decoding restarts at the block after
/// the marker.
#[kani::proof]
#[kani::unwind(8)]
#[kani::stub(crate::inflate::inftrees::inflate_table, stub_table_unreachable)]
#[kani::stub(core::fmt::write, stub_fmt_write)]
#[kani::stub(core::panicking::panic_nounwind, stub_pn)]
#[kani::stub(core::panicking::panic_nounwind_fmt, stub_pnf)]
#[kani::stub(crate::inflate::inflate_fast_help, stub_fast_unreachable)]
#[kani::stub(crate::inflate::State::len_and_friends, stub_laf_suspends)]
#[kani::stub(crate::inflate::writer::Writer::copy_match, stub_copy_match_unreachable)]
#[kani::stub(crate::inflate::writer::Writer::extend_from_window, stub_efw_unreachable)]
#[kani::stub(<[u16]>::fill, stub_fill_unreachable)]
fn ki8_sync_then_inflate() {
    let d: [u8; 2] = kani::any();
    // marker, then a final stored block of 2 bytes
    let input: [u8; 11] = [0x00, 0x00, 0xff, 0xff, 0x01, 0x02, 0x00, 0xfd, 0xff, d[0], d[1]];
    let mut out = [0u8; 4];
    let mut win = [0u8; 4 + 64];
    let mut state = typed_state(&mut win, 0, Mode::Len);
    let tin0: u64 = kani::any();
    let tout0: u64 = kani::any();
    kani::assume(tin0 < 1 << 40 && tout0 < 1 << 40);
    state.total = tout0 as usize; // invariant of an ongoing stream: the internal and the public total agree
    let mut strm = typed_stream(unsafe { &mut *(&mut state as *mut State) });
    strm.next_in = input.as_ptr() as *mut u8;
    strm.avail_in = 11;
    strm.next_out = out.as_mut_ptr();
    strm.avail_out = 4;
    strm.total_in = tin0 as _;
    strm.total_out = tout0 as _;
    let rc = sync(&mut strm);
    assert!(rc == ReturnCode::Ok);
    assert!(strm.avail_in == 7 && strm.total_in as u64 == tin0 + 4 && strm.total_out as u64 == tout0);
    let rc = unsafe { inflate(&mut strm, InflateFlush::NoFlush) };
    assert!(rc == ReturnCode::StreamEnd);
    assert!(strm.avail_in == 0 && strm.avail_out == 2 && out[0] == d[0] && out[1] == d[1]);
    assert!(strm.total_in as u64 == tin0 + 11, "total_in = everything consumed, before and after the sync point");
    assert!(strm.total_out as u64 == tout0 + 2, "total_out = everything produced, before and after the sync point");
    kani::cover!(tout0 == 300);
    core::mem::forget(strm);
    core::mem::forget(state);
}

// KA2 (inflate side) — inflateEnd: the state block goes back to zfree exactly once with the original pointer and opaque.
pub(crate) struct IArenaCtx {
    pub arena: [u8; 192],
    pub freed: usize,
    pub free_calls: u32,
}
unsafe extern "C" fn iza_arena(o: *mut core::ffi::c_void, _items: u32, _size: u32) -> *mut core::ffi::c_void {
    let c = unsafe { &mut *(o as *mut IArenaCtx) };
    unsafe { c.arena.as_mut_ptr().add(5) as *mut core::ffi::c_void }
}
unsafe extern "C" fn izf_arena(o: *mut core::ffi::c_void, p: *mut core::ffi::c_void) {
    let c = unsafe { &mut *(o as *mut IArenaCtx) };
    c.freed = p as usize;
    c.free_calls += 1;
}

#[kani::proof]
#[kani::unwind(8)] // mem::swap of the Window struct is a chunked byte-swap loop
#[kani::stub(core::fmt::write, stub_fmt_write)]
#[kani::stub(core::panicking::panic_nounwind, stub_pn)]
#[kani::stub(core::panicking::panic_nounwind_fmt, stub_pnf)]
fn ka2_inflate_end_releases_once() {
    let mut win = [0u8; 8 + 64];
    let mode = match kani::any::<u8>() % 6 {
        0 => Mode::Head,
        1 => Mode::CopyBlock,
        2 => Mode::Match,
        3 => Mode::Done,
        4 => Mode::Bad,
        _ => Mode::Mem,
    };
    let mut state = typed_state(&mut win, kani::any::<u8>() & 7, mode);
    let mut ctx = IArenaCtx { arena: [0xEE; 192], freed: 0, free_calls: 0 };
    let ctxp = &mut ctx as *mut IArenaCtx;
    let alloc = Allocator { zalloc: iza_arena, zfree: izf_arena, opaque: ctxp as *mut core::ffi::c_void, _marker: PhantomData };
    let block = alloc.allocate_slice_raw::<u8>(64).unwrap();
    state.allocation_start = block.as_ptr();
    state.total_allocation_size = 64;
    let mut strm = typed_stream(unsafe { &mut *(&mut state as *mut State) });
    strm.alloc = alloc;
    let z = end(&mut strm);
    assert!(z.state.is_null());
    let c = unsafe { &*ctxp };
    assert!(c.free_calls == 1, "released exactly once");
    assert!(c.freed == c.arena.as_ptr() as usize + 5, "zfree receives the pointer zalloc returned (through the same opaque handle)");
    kani::cover!(matches!(mode, Mode::Match));
    core::mem::forget(state);
}

/// `inflateInit2(strm, 0)` asks for the window size announced by the zlib header.  A reset stream must do that again for the
/// next stream, as a fresh one would (zlib.h: inflateReset "is equivalent to inflateEnd followed by inflateInit"): the size
/// the previous header announced must not stay latched (C14 "reset == fresh", C03: a later stream with a larger window is
/// valid input for an inflateInit2(0) decoder).
#[kani::proof]
#[kani::unwind(6)]
#[kani::stub(crate::inflate::inftrees::inflate_table, stub_table_unreachable)]
#[kani::stub(core::fmt::write, stub_fmt_write)]
#[kani::stub(core::panicking::panic_nounwind, stub_pn)]
#[kani::stub(core::panicking::panic_nounwind_fmt, stub_pnf)]
#[kani::stub(crate::inflate::inflate_fast_help, stub_fast_unreachable)]
#[kani::stub(crate::inflate::State::len_and_friends, stub_laf_suspends)]
#[kani::stub(crate::inflate::writer::Writer::copy_match, stub_copy_match_unreachable)]
#[kani::stub(crate::inflate::writer::Writer::extend_from_window, stub_efw_unreachable)]
#[kani::stub(<[u16]>::fill, stub_fill_unreachable)]
fn ki8_reset_forgets_header_window_bits() {
    let mut win = [0u8; 8 + 64];
    let mut state = typed_state(&mut win, 1, Mode::Head); // zlib wrapper (concrete: R11)
    state.wbits = 0; // as inflateInit2(strm, 0) leaves it
    state.flush = InflateFlush::Block;
    // a zlib header announcing a window of 2^(cinfo + 8) bytes, cinfo symbolic; FLG completes the check value, no FDICT
    let cinfo: u8 = kani::any();
    kani::assume(cinfo <= 7);
    let cmf = (cinfo << 4) | 8;
    let flg: u8 = kani::any();
    kani::assume(flg & 0x20 == 0 && ((cmf as u32) * 256 + flg as u32) % 31 == 0);
    let input = [cmf, flg];
    let mut out = [0u8; 4];
    unsafe { state.bit_reader.update_slice(input.as_ptr(), 2) };
    state.in_available = 2;
    state.writer = unsafe { Writer::new_uninit(out.as_mut_ptr(), 4) };
    let rc = state.dispatch();
    assert!(rc == ReturnCode::Ok && matches!(state.mode, Mode::Type) && state.wbits == cinfo + 8);
    let mut stream = typed_stream(unsafe { &mut *(&mut state as *mut State) });
    assert!(reset(&mut stream) == ReturnCode::Ok);
    assert!(stream.state.wbits == 0, "the next stream's header decides the window size again");
    assert!(matches!(stream.state.mode, Mode::Head));
    // an explicit size survives a plain reset
    stream.state.wbits = 12;
    assert!(reset(&mut stream) == ReturnCode::Ok);
    assert!(stream.state.wbits == 12);
    kani::cover!(cinfo == 1);
    core::mem::forget(stream);
    core::mem::forget(state);
}

/// inflateCopy duplicates the 32 KiB + 64 window that inflateInit allocates.  A stream set up by inflateBackInit borrows the
/// caller's window (as small as 256 bytes) instead; copying it must be refused (zlib: Z_STREAM_ERROR) rather than read
/// 32 KiB + 64 bytes from that buffer (C02: nothing outside the caller's buffers is read; C14/C16: documented status).
#[kani::proof]
#[kani::unwind(8)]
#[kani::stub(core::fmt::write, stub_fmt_write)]
#[kani::stub(core::panicking::panic_nounwind, stub_pn)]
#[kani::stub(core::panicking::panic_nounwind_fmt, stub_pnf)]
fn ki8_copy_refuses_a_borrowed_window() {
    let mut user_window = [0u8; 512]; // as passed to inflateBackInit(strm, 9, window)
    let mut state = State::new(&[], Writer::new(&mut []));
    state.window = unsafe { Window::from_raw_parts(user_window.as_mut_ptr(), 512) };
    state.wbits = 9;
    state.mode = Mode::Type;
    // inflateBackInit records the same allocation size as inflateInit does
    state.total_allocation_size = InflateAllocOffsets::new().total_size;
    let mut ctx = IArenaCtx { arena: [0u8; 192], freed: 0, free_calls: 0 };
    let mut source = typed_stream(unsafe { &mut *(&mut state as *mut State) });
    source.alloc = Allocator {
        zalloc: iza_arena,
        zfree: izf_arena,
        opaque: &mut ctx as *mut IArenaCtx as *mut core::ffi::c_void,
        _marker: core::marker::PhantomData,
    };
    let mut out = [0u8; 4];
    let input = [0u8; 4];
    source.next_out = out.as_mut_ptr();
    source.avail_out = 4;
    source.next_in = input.as_ptr() as *mut u8;
    source.avail_in = 4;
    let mut dest = core::mem::MaybeUninit::<InflateStream>::zeroed();
    let rc = unsafe { copy(&mut dest, &source) };
    assert!(rc == ReturnCode::StreamError, "a stream that borrows the caller's window cannot be copied");
    assert!(ctx.free_calls == 0);
    // the refused destination does not alias the source's state: ending it (as callers do on their error path) must not
    // release the source's block
    let dest_state = unsafe { core::ptr::read(core::ptr::addr_of!((*dest.as_ptr()).state) as *const *const State) };
    assert!(dest_state.is_null(), "a refused copy leaves the destination without a state");
    core::mem::forget(source);
    core::mem::forget(state);
}
