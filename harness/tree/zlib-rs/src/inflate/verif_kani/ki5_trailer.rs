//! KI5e — Check / Length / Done: stream end only after the trailer verified (C08, C03).
use super::*;

/// zlib: from `Check` with any running Adler-32, 2 symbolic output bytes produced in this call, symbolic trailer:
/// StreamEnd  =>  (checking disabled) or trailer == Adler-32 of the output folded onto the running value (big endian).
#[kani::proof]
#[kani::unwind(12)]
#[kani::stub(crate::inflate::inftrees::inflate_table, stub_table_unreachable)]
#[kani::stub(core::fmt::write, stub_fmt_write)]
#[kani::stub(core::panicking::panic_nounwind, stub_pn)]
#[kani::stub(core::panicking::panic_nounwind_fmt, stub_pnf)]
#[kani::stub(crate::inflate::State::len_and_friends, stub_laf_suspends)]
#[kani::stub(crate::inflate::writer::Writer::copy_match, stub_copy_match_unreachable)]
#[kani::stub(crate::inflate::writer::Writer::extend_from_window, stub_efw_unreachable)]
#[kani::stub(<[u16]>::fill, stub_fill_unreachable)]
fn ki5e_check_zlib() {
    let input: [u8; 5] = kani::any();
    let n_in: usize = kani::any();
    kani::assume(n_in <= 5);
    let mut out = [0u8; 4];
    let mut win = [0u8; 8 + 64];
    let wrap: u8 = kani::any();
    kani::assume(wrap == 1 || wrap == 5);
    let mut state = typed_state(&mut win, wrap, Mode::Check);
    state.gzip_flags = 0;
    let ck: u32 = kani::any();
    kani::assume((ck & 0xffff) < 65521 && (ck >> 16) < 65521);
    state.checksum = ck;
    let total0: usize = kani::any();
    kani::assume(total0 < 1 << 40);
    state.total = total0;
    unsafe { state.bit_reader.update_slice(input.as_ptr(), n_in) };
    state.in_available = n_in;
    state.writer = unsafe { Writer::new_uninit(out.as_mut_ptr(), 4) };
    let o: [u8; 2] = kani::any();
    state.writer.push(o[0]);
    state.writer.push(o[1]);
    state.out_available = 4;
    let rc = state.dispatch();
    let used = consumed(&state, input.as_ptr());
    let a1 = ((ck & 0xffff) + o[0] as u32) % 65521;
    let b1 = ((ck >> 16) + a1) % 65521;
    let a2 = (a1 + o[1] as u32) % 65521;
    let b2 = (b1 + a2) % 65521;
    let expect = (b2 << 16) | a2;
    let given = u32::from_be_bytes([input[0], input[1], input[2], input[3]]);
    match rc {
        ReturnCode::StreamEnd => {
            assert!(n_in >= 4 && used == 4);
            assert!(wrap & 4 == 0 || given == expect);
            assert!(matches!(state.mode, Mode::Done));
            assert!(state.total == total0 + 2);
        }
        ReturnCode::DataError => {
            assert!(n_in >= 4 && wrap & 4 != 0 && given != expect);
            assert!(matches!(state.mode, Mode::Bad));
        }
        ReturnCode::Ok => {
            // asks for more input, has consumed everything, stays in Check
            assert!(n_in < 4 && used == n_in);
            assert!(matches!(state.mode, Mode::Check));
        }
        _ => assert!(false, "undocumented status from Check"),
    }
    kani::cover!(rc == ReturnCode::StreamEnd && wrap == 5);
    kani::cover!(rc == ReturnCode::StreamEnd && wrap == 1 && given != expect, "validate(false) accepts a wrong trailer");
    kani::cover!(rc == ReturnCode::DataError);
    core::mem::forget(state);
}

/// gzip `Length` step: ISIZE must equal total output mod 2^32 (little endian) when checking is on.
#[kani::proof]
#[kani::unwind(12)]
#[kani::stub(crate::inflate::inftrees::inflate_table, stub_table_unreachable)]
#[kani::stub(core::fmt::write, stub_fmt_write)]
#[kani::stub(core::panicking::panic_nounwind, stub_pn)]
#[kani::stub(core::panicking::panic_nounwind_fmt, stub_pnf)]
#[kani::stub(crate::inflate::State::len_and_friends, stub_laf_suspends)]
#[kani::stub(crate::inflate::writer::Writer::copy_match, stub_copy_match_unreachable)]
#[kani::stub(crate::inflate::writer::Writer::extend_from_window, stub_efw_unreachable)]
#[kani::stub(<[u16]>::fill, stub_fill_unreachable)]
fn ki5e_length_gzip() {
    let input: [u8; 5] = kani::any();
    let n_in: usize = kani::any();
    kani::assume(n_in <= 5);
    let mut out = [0u8; 4];
    let mut win = [0u8; 8 + 64];
    let wrap: u8 = kani::any();
    kani::assume(wrap == 2 || wrap == 6);
    let mut state = typed_state(&mut win, wrap, Mode::Length);
    let gf: i32 = kani::any();
    kani::assume(gf > 0 && gf & 0xff == 8 && gf & 0xe000 == 0 && gf <= 0xffff);
    state.gzip_flags = gf;
    let total: usize = kani::any();
    state.total = total;
    // some bits may already be in the register (byte aligned after Check's init_bits: none) - keep empty
    unsafe { state.bit_reader.update_slice(input.as_ptr(), n_in) };
    state.in_available = n_in;
    state.writer = unsafe { Writer::new_uninit(out.as_mut_ptr(), 4) };
    state.out_available = 4;
    let rc = state.dispatch();
    let used = consumed(&state, input.as_ptr());
    let given = u32::from_le_bytes([input[0], input[1], input[2], input[3]]);
    match rc {
        ReturnCode::StreamEnd => {
            assert!(n_in >= 4 && used == 4);
            assert!(wrap & 4 == 0 || given == total as u32);
            assert!(matches!(state.mode, Mode::Done));
        }
        ReturnCode::DataError => assert!(n_in >= 4 && wrap & 4 != 0 && given != total as u32),
        ReturnCode::Ok => assert!(n_in < 4 && used == n_in && matches!(state.mode, Mode::Length)),
        _ => assert!(false, "undocumented status from Length"),
    }
    kani::cover!(rc == ReturnCode::StreamEnd && wrap == 6 && total > u32::MAX as usize, "length taken mod 2^32");
    kani::cover!(rc == ReturnCode::DataError);
    core::mem::forget(state);
}

/// gzip `Check` step: the CRC folded over this call's output onto the running value must equal the little-endian
/// trailer, then ISIZE.  The braid kernel is replaced by a cheap byte-wise fold (which bytes, which start value, which
/// order is the subject; braid == CRC-32 is decided by C09's harnesses).
#[kani::proof]
#[kani::unwind(12)]
#[kani::stub(crate::crc32::braid::crc32_braid, stub_braid_model)]
#[kani::stub(crate::inflate::inftrees::inflate_table, stub_table_unreachable)]
#[kani::stub(core::fmt::write, stub_fmt_write)]
#[kani::stub(core::panicking::panic_nounwind, stub_pn)]
#[kani::stub(core::panicking::panic_nounwind_fmt, stub_pnf)]
#[kani::stub(crate::inflate::State::len_and_friends, stub_laf_suspends)]
#[kani::stub(crate::inflate::writer::Writer::copy_match, stub_copy_match_unreachable)]
#[kani::stub(crate::inflate::writer::Writer::extend_from_window, stub_efw_unreachable)]
#[kani::stub(<[u16]>::fill, stub_fill_unreachable)]
fn ki5e_check_gzip() {
    let input: [u8; 8] = kani::any();
    let mut out = [0u8; 4];
    let mut win = [0u8; 8 + 64];
    let wrap: u8 = kani::any();
    kani::assume(wrap == 2 || wrap == 6);
    let mut state = typed_state(&mut win, wrap, Mode::Check);
    state.gzip_flags = 8;
    // for gzip the running CRC lives in the folding state; `checksum` only receives the final value
    let ck: u32 = kani::any();
    state.checksum = kani::any();
    state.crc_fold = Crc32Fold::new_with_initial(ck);
    state.total = 7;
    unsafe { state.bit_reader.update_slice(input.as_ptr(), 8) };
    state.in_available = 8;
    state.writer = unsafe { Writer::new_uninit(out.as_mut_ptr(), 4) };
    let o: [u8; 2] = kani::any();
    state.writer.push(o[0]);
    state.writer.push(o[1]);
    state.out_available = 4;
    let rc = state.dispatch();
    let expect = crate::crc32::crc32(ck, &o); // the braid kernel behind it is the stubbed model
    let given = u32::from_le_bytes([input[0], input[1], input[2], input[3]]);
    let isize_ = u32::from_le_bytes([input[4], input[5], input[6], input[7]]);
    if rc == ReturnCode::StreamEnd {
        assert!(wrap & 4 == 0 || (given == expect && isize_ == 9));
        assert!(consumed(&state, input.as_ptr()) == 8);
    } else {
        assert!(rc == ReturnCode::DataError);
        assert!(wrap & 4 != 0 && (given != expect || isize_ != 9));
    }
    kani::cover!(rc == ReturnCode::StreamEnd && wrap == 6);
    kani::cover!(rc == ReturnCode::DataError && given == expect, "good CRC, bad ISIZE");
    core::mem::forget(state);
}

/// terminal modes: Done/Bad/Mem/Sync return their fixed status and consume nothing
#[kani::proof]
#[kani::unwind(6)]
#[kani::stub(crate::inflate::inftrees::inflate_table, stub_table_unreachable)]
#[kani::stub(core::fmt::write, stub_fmt_write)]
#[kani::stub(core::panicking::panic_nounwind, stub_pn)]
#[kani::stub(core::panicking::panic_nounwind_fmt, stub_pnf)]
#[kani::stub(crate::inflate::State::len_and_friends, stub_laf_suspends)]
#[kani::stub(crate::inflate::writer::Writer::copy_match, stub_copy_match_unreachable)]
#[kani::stub(crate::inflate::writer::Writer::extend_from_window, stub_efw_unreachable)]
#[kani::stub(<[u16]>::fill, stub_fill_unreachable)]
fn ki5e_terminal_modes() {
    let input: [u8; 4] = kani::any();
    let mut out = [0u8; 4];
    let mut win = [0u8; 8 + 64];
    let wrap: u8 = kani::any();
    kani::assume(wrap <= 7);
    // the start mode is concrete per call (a symbolic mode makes CBMC walk every arm of the decoder)
    let mut m = 0;
    while m < 4 {
        let (mode, expect) = match m {
            0 => (Mode::Done, ReturnCode::StreamEnd),
            1 => (Mode::Bad, ReturnCode::DataError),
            2 => (Mode::Mem, ReturnCode::MemError),
            _ => (Mode::Sync, ReturnCode::StreamError),
        };
        let mut state = typed_state(&mut win, wrap, mode);
        unsafe { state.bit_reader.update_slice(input.as_ptr(), 4) };
        state.writer = unsafe { Writer::new_uninit(out.as_mut_ptr(), 4) };
        let rc = state.dispatch();
        assert!(rc == expect);
        assert!(consumed(&state, input.as_ptr()) == 0 && state.writer.len() == 0);
        core::mem::forget(state);
        m += 1;
    }
    kani::cover!(wrap == 6);
}
