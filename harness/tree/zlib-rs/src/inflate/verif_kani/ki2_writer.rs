//! KI2 — Writer copy primitives: canaries, LZ77 semantics, chunk-width independence (C02, C10).
use super::*;

fn copy_match_twin<const CAP: usize, const TOT: usize, const MAXLEN: usize>() {
    const PADL: usize = 4;
    let init: [u8; TOT] = kani::any();
    let mut a = init;
    let mut b = init;
    let cap: usize = kani::any();
    kani::assume(cap <= CAP);
    let filled: usize = kani::any();
    let off: usize = kani::any();
    let len: usize = kani::any();
    kani::assume(filled <= cap && off >= 1 && off <= filled && len <= cap - filled && len <= MAXLEN);
    let mut wa = unsafe { Writer::new_uninit_raw(a.as_mut_ptr().add(PADL), filled, cap) };
    wa.copy_match_with_features::<{ crate::cpu_features::CpuFeatures::NONE }>(off, len);
    let mut wb = unsafe { Writer::new_uninit_raw(b.as_mut_ptr().add(PADL), filled, cap) };
    wb.copy_match_with_features::<{ crate::cpu_features::CpuFeatures::AVX2 }>(off, len);
    assert!(wa.len() == filled + len && wb.len() == filled + len);
    core::mem::forget(wa);
    core::mem::forget(wb);
    let mut i = 0;
    while i < TOT {
        if i < PADL || i >= PADL + cap {
            assert!(a[i] == init[i] && b[i] == init[i]); // canaries + beyond capacity
        } else if i < PADL + filled {
            assert!(a[i] == init[i] && b[i] == init[i]); // history untouched
        } else if i < PADL + filled + len {
            assert!(a[i] == a[i - off] && b[i] == a[i]); // LZ77 semantics, width-independent
        }
        i += 1;
    }
    kani::cover!(len > off && off > 1, "overlapping copy");
    kani::cover!(len == MAXLEN && cap == CAP, "longest copy at full capacity");
}

/// N = 8 (generic) vs N = 32 (the AVX2 width; same generic code path with a wider chunk)
#[kani::proof]
#[kani::unwind(30)]
#[kani::stub(core::fmt::write, stub_fmt_write)]
#[kani::stub(core::panicking::panic_nounwind, stub_pn)]
#[kani::stub(core::panicking::panic_nounwind_fmt, stub_pnf)]
fn ki2_copy_match_twin_small() {
    copy_match_twin::<16, 24, 6>();
}

#[kani::proof]
#[kani::unwind(60)]
#[kani::stub(core::fmt::write, stub_fmt_write)]
#[kani::stub(core::panicking::panic_nounwind, stub_pn)]
#[kani::stub(core::panicking::panic_nounwind_fmt, stub_pnf)]
fn ki2_copy_match_twin_wide() {
    copy_match_twin::<48, 56, 12>();
}

/// extend_from_window at N = 8 and N = 32: reads only window[range] (+ padding), writes exactly `len` bytes
/// that matter, never beyond capacity; both widths agree.
#[kani::proof]
#[kani::unwind(30)]
#[kani::stub(core::fmt::write, stub_fmt_write)]
#[kani::stub(core::panicking::panic_nounwind, stub_pn)]
#[kani::stub(core::panicking::panic_nounwind_fmt, stub_pnf)]
fn ki2_extend_from_window_twin() {
    const W: usize = 8;
    const CAP: usize = 16;
    const PADL: usize = 4;
    const TOT: usize = CAP + 2 * PADL;
    let wcontent: [u8; W] = kani::any();
    let mut win = [0u8; W + 64];
    let mut k = 0;
    while k < W {
        win[k] = wcontent[k];
        k += 1;
    }
    let mut window = unsafe { Window::from_raw_parts(win.as_mut_ptr(), W + 64) };
    unsafe { window.set_have(W) };
    let init: [u8; TOT] = kani::any();
    let mut a = init;
    let mut b = init;
    let cap: usize = kani::any();
    kani::assume(cap <= CAP);
    let filled: usize = kani::any();
    let from: usize = kani::any();
    let len: usize = kani::any();
    kani::assume(filled <= cap && len <= cap - filled && from <= W && len <= W - from);
    let mut wa = unsafe { Writer::new_uninit_raw(a.as_mut_ptr().add(PADL), filled, cap) };
    wa.extend_from_window_with_features::<{ crate::cpu_features::CpuFeatures::NONE }>(&window, from..from + len);
    let mut wb = unsafe { Writer::new_uninit_raw(b.as_mut_ptr().add(PADL), filled, cap) };
    wb.extend_from_window_with_features::<{ crate::cpu_features::CpuFeatures::AVX2 }>(&window, from..from + len);
    assert!(wa.len() == filled + len && wb.len() == filled + len);
    core::mem::forget(wa);
    core::mem::forget(wb);
    let mut i = 0;
    while i < TOT {
        if i < PADL + filled || i >= PADL + cap {
            assert!(a[i] == init[i] && b[i] == init[i]);
        } else if i < PADL + filled + len {
            assert!(a[i] == wcontent[from + i - PADL - filled] && b[i] == a[i]);
        }
        i += 1;
    }
    kani::cover!(len == 8 && cap == CAP && filled == 0, "whole window, chunked path");
    kani::cover!(len == 3 && cap - filled == 3, "exact fit, slice path");
    core::mem::forget(window);
}

/// inflateBack variants (no padding; output aliases the window): copy_match_back
#[kani::proof]
#[kani::unwind(30)]
#[kani::stub(core::fmt::write, stub_fmt_write)]
#[kani::stub(core::panicking::panic_nounwind, stub_pn)]
#[kani::stub(core::panicking::panic_nounwind_fmt, stub_pnf)]
fn ki2_copy_match_back() {
    const CAP: usize = 16;
    const PADL: usize = 4;
    const TOT: usize = CAP + 2 * PADL;
    let init: [u8; TOT] = kani::any();
    let mut a = init;
    let filled: usize = kani::any();
    let off: usize = kani::any();
    let len: usize = kani::any();
    kani::assume(filled <= CAP && off >= 1 && off <= filled && len <= CAP - filled);
    let mut wa = unsafe { Writer::new_uninit_raw(a.as_mut_ptr().add(PADL), filled, CAP) };
    wa.copy_match_back(off, len);
    assert!(wa.len() == filled + len);
    core::mem::forget(wa);
    let mut i = 0;
    while i < TOT {
        if i < PADL + filled || i >= PADL + CAP {
            assert!(a[i] == init[i]);
        } else if i < PADL + filled + len {
            assert!(a[i] == a[i - off]);
        }
        i += 1;
    }
    kani::cover!(len == 12 && off == 1);
    kani::cover!(len > off && off == 3);
}

