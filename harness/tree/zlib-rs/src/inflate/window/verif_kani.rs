//! KI8c — inflate Window::clone_to (used by inflateCopy): same ring state and contents (C14)
#![allow(dead_code, unused_imports, unused_variables, unused_mut, clippy::all)]
use super::*;

/// Puts the ring directly into a state `Window::extend` can reach: not yet wrapped (`next == have < size`) or full with any
/// write head (`have == size`, `next < size`).  `have`/`next` are private to window.rs; harnesses of other modules use this
/// instead of replaying a history of `extend` calls (which `ki3_window_extend_ring` shows yields exactly these states).
pub(crate) fn set_ring(w: &mut Window<'_>, have: usize, next: usize) {
    assert!((have < w.size() && next == have) || (have == w.size() && next < w.size()));
    w.have = have;
    w.next = next;
}

#[kani::proof]
#[kani::unwind(14)]
fn ki8c_window_clone_to() {
    const W: usize = 8;
    let mut buf = [0u8; W + 64];
    let mut w = unsafe { Window::from_raw_parts(buf.as_mut_ptr(), W + 64) };
    let a: [u8; 12] = kani::any();
    let la: usize = kani::any();
    kani::assume(la <= 12);
    let mut ck = 1u32;
    let mut fold = Crc32Fold::new();
    w.extend(&a[..la], 0, false, &mut ck, &mut fold);
    let mut dst = [0xEEu8; W + 64 + 2];
    let c = unsafe { w.clone_to(dst.as_mut_ptr(), W + 64) };
    assert!(c.have() == w.have() && c.next() == w.next() && c.size() == w.size());
    let i: usize = kani::any();
    kani::assume(i < W);
    assert!(dst[i] == buf[i]);
    assert!(dst[W + 64] == 0xEE);
    kani::cover!(la == 11);
    core::mem::forget(w);
    core::mem::forget(c);
}
