//! KB1 — the fast loop of inflateBack called directly (child of inflate/infback.rs: `inflate_fast_back` is private).
//! After the window buffer has been flushed once it holds the `window size` most recent bytes and nothing older, so a
//! distance larger than the window cannot be served whatever has been written in the current pass: the loop must reject it,
//! as the slow path does, so that verdict and output do not depend on how the input callback slices the input (C19).
#![allow(dead_code, unused_imports, unused_variables, unused_mut, clippy::all)]
use super::*;
use crate::inflate::verif_kani::*;
use crate::verif_kani::*;

// length symbol 257 (length 3), distance code 18 (base 513, 8 extra bits = 87: distance 600), end of block, zero padding
const BEYOND: [u8; 20] = [0xc0, 0x74, 0x05, 0, 0, 0, 0, 0, 0, 0, 0, 0, 0, 0, 0, 0, 0, 0, 0, 0];

fn fast_back_beyond_window(written: usize) {
    let input = BEYOND;
    let mut win = [0xEEu8; 512];
    let mut state = State::new(&[], Writer::new(&mut []));
    state.window = unsafe { Window::from_raw_parts(win.as_mut_ptr(), 512) };
    unsafe { state.window.set_have(512) }; // the window has been flushed at least once
    state.wbits = 9;
    state.flags.update(Flags::SANE, true);
    state.mode = Mode::Len;
    state.len_table = Table { codes: Codes::Fixed, bits: 9 };
    state.dist_table = Table { codes: Codes::Fixed, bits: 5 };
    unsafe { state.bit_reader.update_slice(input.as_ptr(), 20) };
    // `written` bytes of the current pass are in place; the fast loop is entered with >= 260 bytes of room
    state.writer = unsafe { Writer::new_uninit_raw(win.as_mut_ptr(), written, 512) };
    unsafe { inflate_fast_back(&mut state) };
    assert!(matches!(state.mode, Mode::Bad), "a distance of 600 cannot be served from a 512-byte window");
    assert!(state.writer.len() == written, "nothing is written for the rejected match");
    core::mem::forget(state);
}

pub(crate) fn stub_copy_match_back_unreachable<'a>(_w: &mut Writer<'a>, _o: usize, _l: usize)
where
    'a: 'a,
{
    panic!("Writer::copy_match_back reached: the match must have been rejected before any copy")
}
pub(crate) fn stub_efw_back_unreachable<'a>(_w: &mut Writer<'a>, _win: &Window<'_>, _r: core::ops::Range<usize>)
where
    'a: 'a,
{
    panic!("Writer::extend_from_window_back reached: the match must have been rejected before any copy")
}

macro_rules! beyond_harness {
    ($name:ident, $written:expr) => {
        #[kani::proof]
        #[kani::unwind(5)]
        #[kani::stub(core::fmt::write, stub_fmt_write)]
        #[kani::stub(core::panicking::panic_nounwind, stub_pn)]
        #[kani::stub(core::panicking::panic_nounwind_fmt, stub_pnf)]
        #[kani::stub(crate::inflate::writer::Writer::copy_match_back, stub_copy_match_back_unreachable)]
        #[kani::stub(crate::inflate::writer::Writer::extend_from_window_back, stub_efw_back_unreachable)]
        fn $name() {
            fast_back_beyond_window($written);
        }
    };
}
beyond_harness!(kb1_fast_back_beyond_window_w100, 100);
beyond_harness!(kb1_fast_back_beyond_window_w88, 88);
beyond_harness!(kb1_fast_back_beyond_window_w87, 87);

// (Harnesses for a self-overlapping match that starts in the previous pass of the window and runs into the current one, with
// both real copy primitives, did not finish: length 40 at distance 2, symbolic window, 1800 s; length 6 at distance 2 with
// only the ten bytes the match can touch symbolic, field-sensitive window array and a tight unwindset, 900 s — CBMC does not
// see that the control flow of the fast loop is concrete and explores every copy site in every iteration.  Not kept; the
// seeded change C19e lives there and is not detected.)
