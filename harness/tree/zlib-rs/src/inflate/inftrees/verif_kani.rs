//! KI4 — `inflate_table` at a reduced alphabet: for *every* vector of code lengths within the bounds the builder
//! neither panics nor indexes out of bounds, succeeds exactly when the lengths form a complete prefix code (or the
//! documented single-code / empty exceptions), and the two-level lookup decodes the canonical Huffman code of RFC 1951
//! 3.2.2 (C02, C03).
#![allow(dead_code, unused_imports, unused_variables, unused_mut, clippy::all)]
use super::*;
use crate::verif_kani::*;

fn table_reduced<const NS: usize, const ML: u16, const ROOT: usize>() {
    let mut lens = [0u16; NS];
    let mut i = 0;
    while i < NS {
        let l: u16 = kani::any();
        kani::assume(l <= ML);
        lens[i] = l;
        i += 1;
    }
    let mut table = [Code::default(); 32];
    let mut work = [0u16; 8];
    let r = inflate_table(CodeType::Dists, &lens, &mut table, ROOT, &mut work);
    let mut kraft: u32 = 0;
    let mut nz = 0u32;
    let mut maxl = 0u16;
    i = 0;
    while i < NS {
        if lens[i] != 0 {
            kraft += 1u32 << (ML - lens[i]);
            nz += 1;
            if lens[i] > maxl {
                maxl = lens[i];
            }
        }
        i += 1;
    }
    let full = 1u32 << ML;
    match r {
        InflateTable::Success { root, used } => {
            // complete code, or no code at all, or (distances only) a single one-bit code
            assert!(nz == 0 || kraft == full || (kraft < full && maxl == 1));
            assert!(used <= 32 && root <= ML as usize);
            if nz != 0 && kraft == full {
                // decode a symbolic ML-bit string through root table + sub-table and compare with the canonical code
                let bits: usize = kani::any();
                kani::assume(bits < (1 << ML));
                let mut here = table[bits & ((1 << root) - 1)];
                let mut used_bits = here.bits as usize;
                if here.op & 0xf0 == 0 {
                    let last = here;
                    let idx = last.val as usize + ((bits & ((1 << (last.bits + last.op)) - 1)) >> last.bits);
                    assert!(idx < used, "sub-table link stays inside the table");
                    here = table[idx];
                    used_bits = last.bits as usize + here.bits as usize;
                }
                assert!(here.op & 64 == 0);
                assert!(used_bits >= 1 && used_bits <= ML as usize);
                // canonical code (RFC 1951 3.2.2): codes of each length assigned in symbol order
                let mut code: u32 = 0;
                let mut found = false;
                let mut sym_found = 0usize;
                let mut l = 1u16;
                while l <= ML {
                    let mut s = 0;
                    while s < NS {
                        if lens[s] == l {
                            let rev = (code.reverse_bits() >> (32 - l as u32)) as usize;
                            if !found && (bits & ((1 << l) - 1)) == rev {
                                found = true;
                                sym_found = s;
                                assert!(used_bits == l as usize);
                            }
                            code += 1;
                        }
                        s += 1;
                    }
                    code <<= 1;
                    l += 1;
                }
                assert!(found);
                const DBASE: [u16; 8] = [1, 2, 3, 4, 5, 7, 9, 13];
                const DEXT: [u8; 8] = [16, 16, 16, 16, 17, 17, 18, 18];
                assert!(here.val == DBASE[sym_found] && here.op == DEXT[sym_found]);
            }
        }
        InflateTable::InvalidCode => assert!(nz != 0 && kraft != full && !(kraft < full && maxl == 1)),
        InflateTable::EnoughIsNotEnough => assert!(false),
    }
    kani::cover!(matches!(r, InflateTable::Success { .. }) && nz == NS as u32 && maxl > ROOT as u16, "complete code with a sub-table");
    kani::cover!(matches!(r, InflateTable::InvalidCode) && kraft > full, "over-subscribed");
}

#[kani::proof]
#[kani::unwind(20)]
#[kani::stub(core::fmt::write, stub_fmt_write)]
#[kani::stub(core::panicking::panic_nounwind, stub_pn)]
#[kani::stub(core::panicking::panic_nounwind_fmt, stub_pnf)]
fn ki4_table_6sym_4bits_root2() {
    table_reduced::<6, 4, 2>();
}

#[kani::proof]
#[kani::unwind(20)]
#[kani::stub(core::fmt::write, stub_fmt_write)]
#[kani::stub(core::panicking::panic_nounwind, stub_pn)]
#[kani::stub(core::panicking::panic_nounwind_fmt, stub_pnf)]
fn ki4_table_5sym_3bits_root2() {
    table_reduced::<5, 3, 2>();
}

/// the code-length code used by the CodeLens harnesses really is what `inflate_table` builds for those lengths
#[kani::proof]
#[kani::unwind(24)]
#[kani::stub(core::fmt::write, stub_fmt_write)]
#[kani::stub(core::panicking::panic_nounwind, stub_pn)]
#[kani::stub(core::panicking::panic_nounwind_fmt, stub_pnf)]
fn ki4_table_concrete_clen_code() {
    let mut lens = [0u16; 19];
    lens[0] = 2;
    lens[1] = 2;
    lens[2] = 3;
    lens[16] = 3;
    lens[17] = 3;
    lens[18] = 3;
    let mut table = [Code::default(); 128];
    let mut work = [0u16; 19];
    let r = inflate_table(CodeType::Codes, &lens, &mut table, 7, &mut work);
    assert!(matches!(r, InflateTable::Success { root: 3, used: 8 }));
    let t: [(u8, u16); 8] = [(2, 0), (3, 2), (2, 1), (3, 17), (2, 0), (3, 16), (2, 1), (3, 18)];
    let mut i = 0;
    while i < 8 {
        assert!(table[i].op == 0 && table[i].bits == t[i].0 && table[i].val == t[i].1);
        i += 1;
    }
    kani::cover!(true);
}
