//! Kani harnesses for `zlib_rs::inflate` (injected as `crate::inflate::verif_kani`, so private items are reachable).
#![allow(dead_code, unused_imports, unused_variables, unused_mut, clippy::all)]

use super::*;
pub(crate) use crate::verif_kani::*;

mod ki1_bitreader;
mod ki2_writer;
mod ki3_window;
mod ki4_table;
mod ki5_header;
mod ki5_blocks;
mod ki5_symbols;
mod ki5_trailer;
mod ki6_fast;
mod ki7_inflate;
mod ki8_entry;
mod kb1_back;

/// `inflate_table` is verified on its own (KI4); decoder-step harnesses cut it out, so dynamic blocks are outside them.
pub(crate) fn stub_table_unreachable(
    _codetype: inftrees::CodeType,
    _lens: &[u16],
    _table: &mut [Code],
    _bits: usize,
    _work: &mut [u16],
) -> inftrees::InflateTable {
    kani::assume(false);
    inftrees::InflateTable::InvalidCode
}
/// checked stub: reaching the fast path fails the harness instead of silently narrowing it (DESIGN.md R6)
pub(crate) unsafe fn stub_fast_unreachable(_s: &mut State, _start: usize) {
    panic!("inflate_fast_help reached: harness bounds were meant to exclude it")
}
pub(crate) unsafe fn stub_fast_back_unreachable(_s: &mut State) {
    panic!("inflate_fast_back reached: harness bounds were meant to exclude it")
}

/// contract stub for the symbol decoder seen from the block layer: "suspends at once, nothing moved"
pub(crate) fn stub_laf_suspends<'a>(_s: &mut State<'a>) -> ControlFlow<ReturnCode, ()>
where
    'a: 'a,
{
    ControlFlow::Break(ReturnCode::Ok)
}
/// checked stubs for the copy primitives in harnesses whose bounds make a copy impossible
pub(crate) fn stub_copy_match_unreachable<'a>(_w: &mut Writer<'a>, _o: usize, _l: usize)
where
    'a: 'a,
{
    panic!("Writer::copy_match reached: harness bounds were meant to exclude it")
}
pub(crate) fn stub_efw_unreachable<'a>(_w: &mut Writer<'a>, _win: &Window<'_>, _r: core::ops::Range<usize>)
where
    'a: 'a,
{
    panic!("Writer::extend_from_window reached: harness bounds were meant to exclude it")
}
pub(crate) fn stub_fill_unreachable<T: Clone>(_s: &mut [T], _v: T) {
    panic!("<[T]>::fill reached: harness bounds were meant to exclude the code-length repeat codes")
}

pub(crate) unsafe extern "C" fn za_fail(_o: *mut core::ffi::c_void, _i: u32, _s: u32) -> *mut core::ffi::c_void {
    core::ptr::null_mut()
}
pub(crate) unsafe extern "C" fn zf_nop(_o: *mut core::ffi::c_void, _p: *mut core::ffi::c_void) {}

/// Typed inflate state (never through `init()`: DESIGN.md R1).  The window is a caller-provided typed array of
/// `W + 64` bytes (the code is parametric in the window length).
pub(crate) fn typed_state<'a>(win: &'a mut [u8], wrap: u8, mode: Mode) -> State<'a> {
    let mut state = State::new(&[], Writer::new(&mut []));
    state.window = unsafe { Window::from_raw_parts(win.as_mut_ptr(), win.len()) };
    state.wrap = wrap;
    state.wbits = 15;
    state.mode = mode;
    state.checksum = 1;
    state.gzip_flags = -1;
    state.dmax = 32768;
    state.back = usize::MAX;
    state.chunksize = 32;
    state.flush = InflateFlush::NoFlush;
    state
}

pub(crate) fn typed_stream<'a>(state: &'a mut State<'a>) -> InflateStream<'a> {
    InflateStream {
        next_in: core::ptr::null_mut(),
        avail_in: 0,
        total_in: 0,
        next_out: core::ptr::null_mut(),
        avail_out: 0,
        total_out: 0,
        msg: core::ptr::null_mut(),
        state,
        alloc: Allocator { zalloc: za_fail, zfree: zf_nop, opaque: core::ptr::null_mut(), _marker: PhantomData },
        data_type: 0,
        adler: 0,
        reserved: 0,
    }
}

pub(crate) fn any_flush() -> InflateFlush {
    let fl: u8 = kani::any();
    kani::assume(fl < 5);
    match fl {
        0 => InflateFlush::NoFlush,
        1 => InflateFlush::SyncFlush,
        2 => InflateFlush::Finish,
        3 => InflateFlush::Block,
        _ => InflateFlush::Trees,
    }
}

pub(crate) fn consumed(state: &State<'_>, base: *const u8) -> usize {
    state.bit_reader.as_ptr() as usize - base as usize
}
