//! KA1 — the allocator shim between zlib's zalloc/zfree and Rust layouts (C18).
#![allow(dead_code, unused_imports, unused_variables, unused_mut, clippy::all)]
use super::*;
use crate::verif_kani::*;

/// user allocator context, reached through `opaque` (no statics: a native replay runs several tests in one process)
struct Ctx {
    arena: [u8; 320],
    k: usize,
    fail: bool,
    freed: usize,
    free_calls: u32,
    alloc_calls: u32,
    req: u32,
}

unsafe extern "C" fn za(o: *mut c_void, items: c_uint, size: c_uint) -> *mut c_void {
    let c = unsafe { &mut *(o as *mut Ctx) };
    c.req = items * size;
    c.alloc_calls += 1;
    if c.fail {
        return core::ptr::null_mut();
    }
    unsafe { c.arena.as_mut_ptr().add(64 + c.k) as *mut c_void }
}
unsafe extern "C" fn zf(o: *mut c_void, p: *mut c_void) {
    let c = unsafe { &mut *(o as *mut Ctx) };
    c.freed = p as usize;
    c.free_calls += 1;
}
fn new_ctx(k: usize, fail: bool) -> Ctx {
    Ctx { arena: [0xEE; 320], k, fail, freed: 0, free_calls: 0, alloc_calls: 0, req: 0 }
}

/// any misalignment of the block zalloc returns, any size <= 64, any alignment 1..=64, zalloc may fail:
/// returned pointer aligned and inside the block with room for `size` bytes, the stash word inside the block and
/// below the pointer, deallocate passes exactly the original pointer and the same opaque handle, exactly once.
#[kani::proof]
#[kani::unwind(4)]
#[kani::stub(core::fmt::write, stub_fmt_write)]
#[kani::stub(core::panicking::panic_nounwind, stub_pn)]
#[kani::stub(core::panicking::panic_nounwind_fmt, stub_pnf)]
fn ka1_alloc_shim() {
    let k: usize = kani::any();
    kani::assume(k < 64);
    let fail: bool = kani::any();
    let mut ctx = new_ctx(k, fail);
    let ctxp = &mut ctx as *mut Ctx;
    let size: usize = kani::any();
    kani::assume(size >= 1 && size <= 64);
    let align_log: u32 = kani::any();
    kani::assume(align_log <= 6);
    let align = 1usize << align_log;
    let layout = Layout::from_size_align(size, align).unwrap();
    let a = Allocator { zalloc: za, zfree: zf, opaque: ctxp as *mut c_void, _marker: PhantomData };
    let p = a.allocate_layout(layout) as *mut u8;
    let base = unsafe { (*ctxp).arena.as_mut_ptr().add(64 + k) };
    assert!(unsafe { (*ctxp).alloc_calls } == 1);
    if fail {
        assert!(p.is_null());
        assert!(unsafe { (*ctxp).free_calls } == 0, "a failed allocation releases nothing");
        return;
    }
    assert!(!p.is_null());
    let req = unsafe { (*ctxp).req } as usize;
    assert!(p as usize >= base as usize + core::mem::size_of::<*mut c_void>(), "room for the stash word below the pointer");
    assert!(p as usize + size <= base as usize + req, "the user block lies inside what zalloc handed out");
    assert!((p as usize) % align == 0, "aligned");
    // the user may write all `size` bytes without touching the stash
    unsafe { core::ptr::write_bytes(p, 0x11, size) };
    unsafe { a.deallocate(p, size) };
    assert!(unsafe { (*ctxp).free_calls } == 1, "released exactly once");
    assert!(unsafe { (*ctxp).freed } == base as usize, "zfree receives the pointer zalloc returned, through the same opaque handle");
    // arena outside the block untouched
    let i: usize = kani::any();
    kani::assume(i < 320 && (i < 64 + k || i >= 64 + k + req));
    assert!(unsafe { (*ctxp).arena[i] } == 0xEE);
    kani::cover!(k == 63 && align == 64 && size == 64);
    kani::cover!(k == 0 && align == 1);
}

/// sizes that do not fit a C `unsigned int` are refused before zalloc is called; null pointers are not freed
#[kani::proof]
#[kani::unwind(4)]
#[kani::stub(core::fmt::write, stub_fmt_write)]
#[kani::stub(core::panicking::panic_nounwind, stub_pn)]
#[kani::stub(core::panicking::panic_nounwind_fmt, stub_pnf)]
fn ka1_alloc_overflow_and_null() {
    let len: usize = kani::any();
    // align 1: 8 bytes for the stash word + 1 for alignment are added to the request
    kani::assume(len > u32::MAX as usize - 9);
    let mut ctx = new_ctx(0, false);
    let ctxp = &mut ctx as *mut Ctx;
    let a = Allocator { zalloc: za, zfree: zf, opaque: ctxp as *mut c_void, _marker: PhantomData };
    let r = a.allocate_slice_raw::<u8>(len);
    assert!(r.is_none());
    assert!(unsafe { (*ctxp).alloc_calls } == 0);
    unsafe { a.deallocate::<u8>(core::ptr::null_mut(), 10) };
    assert!(unsafe { (*ctxp).free_calls } == 0);
    kani::cover!(len == usize::MAX);
}

/// The same for the default (Rust) allocator, which has a fast path of its own: a request the C-style (items, size)
/// interface cannot express is refused, not truncated to its low 32 bits (the caller would be handed a block smaller than
/// it asked for).  Sizes of that order come from the gz layer (gzbuffer).
pub(crate) unsafe extern "C" fn stub_zalloc_rust_unreachable(_o: *mut c_void, _count: core::ffi::c_uint, _size: core::ffi::c_uint) -> *mut c_void {
    panic!("the allocator was asked for a block although the request does not fit its interface")
}

#[cfg(feature = "rust-allocator")]
#[kani::proof]
#[kani::unwind(4)]
#[kani::stub(core::fmt::write, stub_fmt_write)]
#[kani::stub(core::panicking::panic_nounwind, stub_pn)]
#[kani::stub(core::panicking::panic_nounwind_fmt, stub_pnf)]
#[kani::stub(crate::allocate::zalloc_rust, stub_zalloc_rust_unreachable)]
#[kani::stub(crate::allocate::zalloc_rust_calloc, stub_zalloc_rust_unreachable)]
fn ka1_default_allocator_refuses_oversized_requests() {
    let len: usize = kani::any();
    kani::assume(len > u32::MAX as usize);
    kani::assume(len <= isize::MAX as usize - 64);
    // (low 32 bits zero: the truncated request would be a zero-size one, which the allocator answers with null anyway)
    kani::assume(len as u32 != 0);
    let mut size_slot: usize = 0;
    let a = Allocator { zalloc: RUST.zalloc, zfree: RUST.zfree, opaque: &mut size_slot as *mut usize as *mut c_void, _marker: PhantomData };
    let r = a.allocate_slice_raw::<u8>(len);
    assert!(r.is_none(), "a block of the requested size cannot be asked for: no block is handed out");
    let z = a.allocate_zeroed_buffer(len);
    assert!(z.is_none());
    kani::cover!(len == (1usize << 32) + 64);
}

/// The two halves of the allocator shim choose their strategy independently (`allocate_layout` from `zalloc`, `deallocate`
/// from `zfree`), so every stream must end up with a matched pair: whatever subset of callbacks the caller supplied before
/// init, after the default-allocator fallback both are the caller's (untouched, same opaque) or both are the default.
/// (The three lines below are the prologue shared by deflate::init, inflate::init and inflateBackInit.)
#[kani::proof]
#[kani::unwind(4)]
#[kani::stub(core::fmt::write, stub_fmt_write)]
#[kani::stub(core::panicking::panic_nounwind, stub_pn)]
#[kani::stub(core::panicking::panic_nounwind_fmt, stub_pnf)]
fn ka3_default_allocator_fallback_is_a_matched_pair() {
    let mut ctx = new_ctx(0, false);
    let op = &mut ctx as *mut Ctx as *mut c_void;
    let has_alloc: bool = kani::any();
    let has_free: bool = kani::any();
    let mut stream = crate::c_api::z_stream::default();
    stream.zalloc = if has_alloc { Some(za) } else { None };
    stream.zfree = if has_free { Some(zf) } else { None };
    stream.opaque = op;
    // prologue of init
    if stream.zalloc.is_none() || stream.zfree.is_none() {
        stream.configure_default_rust_allocator()
    }
    assert!(stream.zalloc.is_some() && stream.zfree.is_some());
    let zalloc = stream.zalloc.unwrap();
    let zfree = stream.zfree.unwrap();
    let default_alloc = zalloc == RUST.zalloc;
    let default_free = zfree == RUST.zfree;
    assert!(default_alloc == default_free, "allocation and release use the same strategy");
    if has_alloc && has_free {
        assert!(zalloc == za as crate::c_api::alloc_func && zfree == zf as crate::c_api::free_func && stream.opaque == op);
    } else {
        assert!(default_alloc && default_free, "an incomplete pair is replaced as a whole");
    }
    kani::cover!(has_alloc && !has_free);
    kani::cover!(has_alloc && has_free);
}
