//! KD2 — static coding tables equal RFC 1951 §3.2.5 / §3.2.6 (solver ranges over every (len, dist) / symbol).
use super::*;

#[kani::proof]
#[kani::unwind(32)]
fn kd2_static_encode_matches_rfc() {
    let len: u16 = kani::any();
    kani::assume(len >= 3 && len <= 258);
    let dist: u16 = kani::any();
    kani::assume(dist >= 1 && dist <= 32768);
    let (lb, ln) = encode_len(&self::trees_tbl::STATIC_LTREE, (len - 3) as u8);
    let (sym, ex, exv) = rfc_len(len);
    let (code, clen) = rfc_fixed_lit_code(sym);
    assert!(ln == clen as usize + ex as usize);
    assert!(lb == (rev16(code, clen) as u64) | ((exv as u64) << clen));
    let (db, dn) = encode_dist(&self::trees_tbl::STATIC_DTREE, dist);
    let (dsym, dex, dexv) = rfc_dist(dist);
    assert!(dn == 5 + dex as usize);
    assert!(db == (rev16(dsym, 5) as u64) | ((dexv as u64) << 5));
    // the precomputed table used by emit_dist_static agrees with encode_len
    let pre = self::trees_tbl::STATIC_LTREE_ENCODINGS[(len - 3) as usize];
    assert!(pre.code() as u64 == lb && pre.len() as usize == ln);
    // d_code / LENGTH_CODE / BASE tables
    assert!(State::d_code((dist - 1) as usize) as u16 == dsym);
    assert!(self::trees_tbl::LENGTH_CODE[(len - 3) as usize] as u16 + 257 == sym);
    assert!(self::trees_tbl::BASE_LENGTH[(sym - 257) as usize] as u16 + 3 == RFC_LBASE[(sym - 257) as usize] || sym == 285);
    assert!(self::trees_tbl::BASE_DIST[dsym as usize] + 1 == RFC_DBASE[dsym as usize]);
    assert!(StaticTreeDesc::EXTRA_LBITS[(sym - 257) as usize] == ex);
    assert!(StaticTreeDesc::EXTRA_DBITS[dsym as usize] == dex);
    kani::cover!(len == 258 && dist == 32768);
    kani::cover!(len == 257 && dist == 24577);
}

/// every literal/length symbol of the static tree has the RFC 1951 §3.2.6 code (bit-reversed for LSB-first emission)
#[kani::proof]
#[kani::unwind(4)]
fn kd2_static_ltree_is_rfc_fixed_code() {
    let sym: u16 = kani::any();
    kani::assume(sym < 288);
    let node = self::trees_tbl::STATIC_LTREE[sym as usize];
    let (code, clen) = rfc_fixed_lit_code(sym);
    assert!(node.len() == clen as u16);
    assert!(node.code() == rev16(code, clen));
    let d: u16 = kani::any();
    kani::assume(d < 30);
    let dn = self::trees_tbl::STATIC_DTREE[d as usize];
    assert!(dn.len() == 5 && dn.code() == rev16(d, 5));
    // BL_ORDER is the RFC 1951 §3.2.7 permutation
    const RFC_ORDER: [u8; 19] = [16, 17, 18, 0, 8, 7, 9, 6, 10, 5, 11, 4, 12, 3, 13, 2, 14, 1, 15];
    let k: usize = kani::any();
    kani::assume(k < 19);
    assert!(StaticTreeDesc::BL_ORDER[k] == RFC_ORDER[k]);
    kani::cover!(sym == 287);
}
