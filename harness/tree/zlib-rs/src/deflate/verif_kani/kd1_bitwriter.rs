//! KD1 — BitWriter: bytes handed to `pending` are the RFC 1951 little-endian packing of everything sent.
use super::*;

fn pending_bytes<'a>(bw: &'a BitWriter<'_>) -> &'a [u8] {
    bw.pending.pending()
}

/// 4 x `send_bits` from any valid (bit_buffer, bits_valid), then align or flush:
/// output bytes == bit-queue model; `bits_valid`/`bits_used` bookkeeping; "bits above bits_valid are zero".
#[kani::proof]
#[kani::unwind(34)]
#[kani::stub(core::fmt::write, stub_fmt_write)]
#[kani::stub(core::panicking::panic_nounwind, stub_pn)]
#[kani::stub(core::panicking::panic_nounwind_fmt, stub_pnf)]
fn kd1_bitwriter_pack() {
    let mut mem = [MaybeUninit::<u8>::new(0); 48];
    let pending = unsafe { Pending::from_raw_parts(mem.as_mut_ptr(), 48) };
    let mut bw = BitWriter::from_pending(pending);
    let mut model = BitModel::new();
    let bv0: u8 = kani::any();
    kani::assume(bv0 <= 63);
    let bb0: u64 = kani::any();
    kani::assume(bb0 >> bv0 == 0);
    bw.bit_buffer = bb0;
    bw.bits_valid = bv0;
    model.push(bb0, bv0 as u32);
    let mut k = 0;
    while k < 4 {
        let len: u8 = kani::any();
        kani::assume(len >= 1 && len <= 32);
        let val: u64 = kani::any();
        kani::assume(val >> len == 0);
        bw.send_bits(val, len);
        model.push(val, len as u32);
        assert!(bw.bits_valid <= 63);
        assert!(bw.bit_buffer >> bw.bits_valid == 0);
        k += 1;
    }
    check_tail(&mut bw, &model);
    kani::cover!(model.n > 128, "more than two 64-bit spills");
    kani::cover!(model.n % 8 == 0 && model.n > 64, "ends exactly on a byte boundary");
}

fn check_tail(bw: &mut BitWriter<'_>, model: &BitModel) {
    let total = model.n;
    let align: bool = kani::any();
    if align {
        bw.emit_align();
        let nbytes = ((total + 7) / 8) as usize;
        assert!(pending_bytes(bw).len() == nbytes);
        assert!(bw.bits_valid == 0 && bw.bit_buffer == 0);
        assert!(bw.bits_used == if total % 8 == 0 { 8 } else { (total % 8) as u8 });
        let mut i = 0;
        while i < 32 {
            if i < nbytes {
                assert!(pending_bytes(bw)[i] == model.byte(i));
            }
            i += 1;
        }
    } else {
        bw.flush_bits();
        let nbytes = (total / 8) as usize;
        assert!(pending_bytes(bw).len() == nbytes);
        assert!(bw.bits_valid as u32 == total % 8);
        assert!(bw.bit_buffer == (model.byte(nbytes) as u64) & ((1u64 << (total % 8)) - 1));
        let mut i = 0;
        while i < 32 {
            if i < nbytes {
                assert!(pending_bytes(bw)[i] == model.byte(i));
            }
            i += 1;
        }
    }
}

/// One emission of each emitter kind from any valid register == `send_bits` of the RFC-specified (value, length):
/// emit_tree (BFINAL, BTYPE), emit_lit, emit_dist_static, emit_dist, emit_end_block, align (empty static block).
#[kani::proof]
#[kani::unwind(34)]
#[kani::stub(core::fmt::write, stub_fmt_write)]
#[kani::stub(core::panicking::panic_nounwind, stub_pn)]
#[kani::stub(core::panicking::panic_nounwind_fmt, stub_pnf)]
fn kd1_emitters_one_step() {
    let mut mem = [MaybeUninit::<u8>::new(0); 48];
    let pending = unsafe { Pending::from_raw_parts(mem.as_mut_ptr(), 48) };
    let mut bw = BitWriter::from_pending(pending);
    let mut model = BitModel::new();
    let bv0: u8 = kani::any();
    kani::assume(bv0 <= 63);
    let bb0: u64 = kani::any();
    kani::assume(bb0 >> bv0 == 0);
    bw.bit_buffer = bb0;
    bw.bits_valid = bv0;
    model.push(bb0, bv0 as u32);
    let kind: u8 = kani::any();
    kani::assume(kind < 6);
    match kind {
        0 => {
            let last: bool = kani::any();
            let bt: u8 = kani::any();
            kani::assume(bt <= 2);
            let block_type = match bt {
                0 => BlockType::StoredBlock,
                1 => BlockType::StaticTrees,
                _ => BlockType::DynamicTrees,
            };
            bw.emit_tree(block_type, last);
            // RFC 1951 3.2.3: BFINAL first, then BTYPE (2 bits, LSB first)
            model.push(last as u64, 1);
            model.push(bt as u64, 2);
        }
        1 => {
            let c: u8 = kani::any();
            let l = bw.emit_lit(&self::trees_tbl::STATIC_LTREE, c);
            let (code, clen) = rfc_fixed_lit_code(c as u16);
            assert!(l == clen as u16);
            model.push(rev16(code, clen) as u64, clen as u32);
        }
        2 | 3 => {
            let len: u16 = kani::any();
            kani::assume(len >= 3 && len <= 258);
            let dist: u16 = kani::any();
            kani::assume(dist >= 1 && dist <= 32768);
            let n = if kind == 2 {
                bw.emit_dist_static((len - 3) as u8, dist)
            } else {
                bw.emit_dist(&self::trees_tbl::STATIC_LTREE, &self::trees_tbl::STATIC_DTREE, (len - 3) as u8, dist)
            };
            let (sym, ex, exv) = rfc_len(len);
            let (code, clen) = rfc_fixed_lit_code(sym);
            let (dsym, dex, dexv) = rfc_dist(dist);
            assert!(n == clen as usize + ex as usize + 5 + dex as usize);
            model.push(rev16(code, clen) as u64, clen as u32);
            model.push(exv as u64, ex as u32);
            model.push(rev16(dsym, 5) as u64, 5);
            model.push(dexv as u64, dex as u32);
        }
        4 => {
            bw.emit_end_block(&self::trees_tbl::STATIC_LTREE, false);
            // RFC 1951 3.2.6: symbol 256 = 7 zero bits
            model.push(0, 7);
        }
        _ => {
            // Z_PARTIAL_FLUSH marker: empty static block = 3 header bits (BFINAL 0, BTYPE 01) + 7-bit EOB
            bw.align();
            model.push(0, 1);
            model.push(1, 2);
            model.push(0, 7);
            let total = model.n;
            let nbytes = (total / 8) as usize;
            assert!(pending_bytes(&bw).len() == nbytes);
            assert!(bw.bits_valid as u32 == total % 8);
        }
    }
    assert!(bw.bits_valid <= 63);
    assert!(bw.bit_buffer >> bw.bits_valid == 0);
    check_tail(&mut bw, &model);
    kani::cover!(kind == 3 && model.n >= 64 + 24, "long match code spills the register");
    kani::cover!(kind == 5);
}

/// `send_bits_overflow` with a completely full register (bits_valid == 64, reachable inside `prime`).
#[kani::proof]
#[kani::unwind(12)]
#[kani::stub(core::fmt::write, stub_fmt_write)]
#[kani::stub(core::panicking::panic_nounwind, stub_pn)]
#[kani::stub(core::panicking::panic_nounwind_fmt, stub_pnf)]
fn kd1_bitwriter_full_register() {
    let mut mem = [MaybeUninit::<u8>::new(0); 24];
    let pending = unsafe { Pending::from_raw_parts(mem.as_mut_ptr(), 24) };
    let mut bw = BitWriter::from_pending(pending);
    let bb0: u64 = kani::any();
    bw.bit_buffer = bb0;
    bw.bits_valid = 64;
    let len: u8 = kani::any();
    kani::assume(len >= 1 && len <= 32);
    let val: u64 = kani::any();
    kani::assume(val >> len == 0);
    bw.send_bits(val, len);
    assert!(bw.bits_valid == len && bw.bit_buffer == val);
    assert!(pending_bytes(&bw).len() == 8);
    let mut i = 0;
    while i < 8 {
        assert!(pending_bytes(&bw)[i] == (bb0 >> (8 * i)) as u8);
        i += 1;
    }
    kani::cover!(len == 32);
}

/// `deflate::prime` (deflatePrime): every `bits`, every `value`; BufError exactly outside 0..=32;
/// the low `bits` bits of `value` are appended to the bit stream; never aborts (C06/C16).
#[kani::proof]
#[kani::unwind(14)]
#[kani::stub(core::fmt::write, stub_fmt_write)]
#[kani::stub(core::panicking::panic_nounwind, stub_pn)]
#[kani::stub(core::panicking::panic_nounwind_fmt, stub_pnf)]
fn kd10_prime() {
    const WB: usize = 4;
    const LB: usize = 8;
    let mut w = [0u8; 2 << WB];
    let mut p = [0u16; 1 << WB];
    let mut h = [0u16; HASH_SIZE];
    let mut pe = [MaybeUninit::new(0u8); 4 * LB];
    let mut sy = [0u8; 3 * LB];
    let mut state = typed_state(&mut w, &mut p, &mut h, &mut pe, &mut sy, WB, LB, 6, 0, Strategy::Default);
    let bv0: u8 = kani::any();
    kani::assume(bv0 <= 63);
    let bb0: u64 = kani::any();
    kani::assume(bb0 >> bv0 == 0);
    state.bit_writer.bit_buffer = bb0;
    state.bit_writer.bits_valid = bv0;
    let mut model = BitModel::new();
    model.push(bb0, bv0 as u32);
    let mut stream = typed_stream(unsafe { &mut *(&mut state as *mut State) });
    let bits: i32 = kani::any();
    let value: i32 = kani::any();
    let rc = prime(&mut stream, bits, value);
    if bits < 0 || bits > 32 {
        assert!(rc == ReturnCode::BufError);
        assert!(stream.state.bit_writer.bits_valid == bv0 && stream.state.bit_writer.bit_buffer == bb0);
    } else {
        assert!(rc == ReturnCode::Ok);
        model.push(value as u32 as u64, bits as u32);
        let total = model.n;
        let nbytes = (total / 8) as usize;
        let bw = &stream.state.bit_writer;
        assert!(bw.pending.pending().len() == nbytes);
        assert!(bw.bits_valid as u32 == total % 8);
        assert!(bw.bit_buffer == (model.byte(nbytes) as u64) & ((1u64 << (total % 8)) - 1));
        let mut i = 0;
        while i < 12 {
            if i < nbytes {
                assert!(bw.pending.pending()[i] == model.byte(i));
            }
            i += 1;
        }
    }
    kani::cover!(rc == ReturnCode::Ok && bits == 32 && bv0 == 63);
    kani::cover!(rc == ReturnCode::Ok && bits == 17);
    core::mem::forget(stream);
    core::mem::forget(state);
}

/// deflatePrime with a pending buffer that is (nearly) full, as after many deflatePrime calls without deflate() or with
/// undrained output: the call either appends the bits or refuses with BufError (zlib: "not enough room in the internal
/// buffer to insert the bits") leaving everything as it was — it never aborts (C06, C16).
fn prime_room_instance(room: usize) {
    const WB: usize = 4;
    const LB: usize = 8; // pending buffer = 32 bytes
    let mut w = [0u8; 2 << WB];
    let mut p = [0u16; 1 << WB];
    let mut h = [0u16; HASH_SIZE];
    let mut pe = [MaybeUninit::new(0u8); 4 * LB];
    let mut sy = [0u8; 3 * LB];
    let mut state = typed_state(&mut w, &mut p, &mut h, &mut pe, &mut sy, WB, LB, 6, 0, Strategy::Default);
    let queued = 32 - room;
    let fill = [0xA5u8; 32];
    state.bit_writer.pending.extend(&fill[..queued]);
    let bv0: u8 = kani::any();
    kani::assume(bv0 <= 63);
    let bb0: u64 = kani::any();
    kani::assume(bb0 >> bv0 == 0);
    state.bit_writer.bit_buffer = bb0;
    state.bit_writer.bits_valid = bv0;
    let mut model = BitModel::new();
    model.push(bb0, bv0 as u32);
    let mut stream = typed_stream(unsafe { &mut *(&mut state as *mut State) });
    let bits: i32 = kani::any();
    kani::assume(bits >= 0 && bits <= 32);
    let value: i32 = kani::any();
    let rc = prime(&mut stream, bits, value);
    let bw = &stream.state.bit_writer;
    assert!(matches!(rc, ReturnCode::Ok | ReturnCode::BufError));
    if rc == ReturnCode::BufError {
        assert!(bw.bits_valid == bv0 && bw.bit_buffer == bb0 && bw.pending.pending().len() == queued, "a refused call changes nothing");
        assert!(room < 16, "there was room for the whole bit buffer: no reason to refuse");
    } else {
        model.push(value as u32 as u64, bits as u32);
        let total = model.n;
        let nbytes = (total / 8) as usize;
        assert!(bw.pending.pending().len() == queued + nbytes);
        assert!(bw.bits_valid as u32 == total % 8);
        let k: usize = kani::any();
        kani::assume(k < nbytes);
        assert!(bw.pending.pending()[queued + k] == model.byte(k));
        assert!(bw.pending.pending()[queued - 1] == 0xA5 || queued == 0);
    }
    kani::cover!(bits == 32 && bv0 == 63);
    core::mem::forget(stream);
    core::mem::forget(state);
}

macro_rules! prime_room_harness {
    ($name:ident, $room:expr) => {
        #[kani::proof]
        #[kani::unwind(14)]
        #[kani::stub(core::fmt::write, stub_fmt_write)]
        #[kani::stub(core::panicking::panic_nounwind, stub_pn)]
        #[kani::stub(core::panicking::panic_nounwind_fmt, stub_pnf)]
        fn $name() {
            prime_room_instance($room);
        }
    };
}
prime_room_harness!(kd10_prime_room0, 0);
prime_room_harness!(kd10_prime_room3, 3);
prime_room_harness!(kd10_prime_room7, 7);
prime_room_harness!(kd10_prime_room8, 8);
prime_room_harness!(kd10_prime_room16, 16);

// ---------------------------------------------------------------------------------------------------------------
// KD3 — compress_block: the symbol buffer filled by the match finders is written out symbol by symbol and closed with the
// end-of-block code.  A literal and a match in either order (symbolic byte, length, distance), through the static-tree
// loop and through the general loop (given the fixed code as its trees): the bits are the RFC fixed codes of exactly these
// symbols in this order, then 256.  (Which symbols the match finders tally is outside this harness.)
// ---------------------------------------------------------------------------------------------------------------
fn compress_block_two_symbols<const GENERAL: bool>() {
    let mut w = [0u8; 2 << 4];
    let mut p = [0u16; 1 << 4];
    let mut h = [0u16; HASH_SIZE];
    let mut pe = [MaybeUninit::new(0u8); 4 * 16];
    let mut sy = [0u8; 3 * 16];
    let mut state = typed_state(&mut w, &mut p, &mut h, &mut pe, &mut sy, 4, 16, 6, 0, Strategy::Default);
    let mut model = BitModel::new();
    let bv0: u8 = kani::any();
    kani::assume(bv0 <= 7);
    let bb0: u64 = kani::any();
    kani::assume(bb0 >> bv0 == 0);
    state.bit_writer.bit_buffer = bb0;
    state.bit_writer.bits_valid = bv0;
    model.push(bb0, bv0 as u32);
    let c: u8 = kani::any();
    let len: u16 = kani::any();
    kani::assume(len >= 3 && len <= 258);
    let dist: u16 = kani::any();
    kani::assume(dist >= 1 && dist <= 32768);
    let lit_first: bool = kani::any();
    if lit_first {
        state.sym_buf.push_lit(c);
        state.sym_buf.push_dist(dist, (len - 3) as u8);
    } else {
        state.sym_buf.push_dist(dist, (len - 3) as u8);
        state.sym_buf.push_lit(c);
    }
    if GENERAL {
        let mut tmp = unsafe { SymBuf::from_raw_parts(core::ptr::NonNull::<u8>::dangling().as_ptr(), 0) };
        core::mem::swap(&mut tmp, &mut state.sym_buf);
        state.bit_writer.compress_block_help(&tmp, &self::trees_tbl::STATIC_LTREE, &self::trees_tbl::STATIC_DTREE);
        core::mem::forget(tmp);
    } else {
        state.compress_block_static_trees();
    }
    let (lcode, lclen) = rfc_fixed_lit_code(c as u16);
    let (sym, ex, exv) = rfc_len(len);
    let (mcode, mclen) = rfc_fixed_lit_code(sym);
    let (dsym, dex, dexv) = rfc_dist(dist);
    if lit_first {
        model.push(rev16(lcode, lclen) as u64, lclen as u32);
    }
    model.push(rev16(mcode, mclen) as u64, mclen as u32);
    model.push(exv as u64, ex as u32);
    model.push(rev16(dsym, 5) as u64, 5);
    model.push(dexv as u64, dex as u32);
    if !lit_first {
        model.push(rev16(lcode, lclen) as u64, lclen as u32);
    }
    model.push(0, 7); // end of block
    check_tail(&mut state.bit_writer, &model);
    kani::cover!(lit_first && len == 258 && dist == 32768);
    kani::cover!(!lit_first && len == 3 && dist == 1);
    core::mem::forget(state);
}

#[kani::proof]
#[kani::unwind(34)]
#[kani::stub(core::fmt::write, stub_fmt_write)]
#[kani::stub(core::panicking::panic_nounwind, stub_pn)]
#[kani::stub(core::panicking::panic_nounwind_fmt, stub_pnf)]
fn kd3_compress_block_static_two_symbols() {
    compress_block_two_symbols::<false>();
}

#[kani::proof]
#[kani::unwind(34)]
#[kani::stub(core::fmt::write, stub_fmt_write)]
#[kani::stub(core::panicking::panic_nounwind, stub_pn)]
#[kani::stub(core::panicking::panic_nounwind_fmt, stub_pnf)]
fn kd3_compress_block_general_two_symbols() {
    compress_block_two_symbols::<true>();
}

// (A harness for tally_dist/tally_lit — exactly the RFC symbols of this length and distance are counted — ran out of
// memory at 20 GB: the counters are updated at symbolic indices of the 573- and 61-entry tree arrays.  Not kept.)
