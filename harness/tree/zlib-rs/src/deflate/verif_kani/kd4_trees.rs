//! KD4/KD5 — dynamic Huffman trees on the encoder side at reduced alphabets: `gen_codes` assigns a canonical, prefix-free
//! code (RFC 1951 3.2.2), `build_tree` produces a complete length-limited code whose lengths follow the frequencies, and
//! `send_tree` writes the run-length coded lengths so that an RFC 1951 3.2.7 reference decoder gets the lengths back
//! (and `scan_tree` predicts exactly the symbols `send_tree` emits).  C05, C01.
use super::*;

fn rev(code: u16, len: u16) -> u16 {
    code.reverse_bits() >> (16 - len)
}

/// gen_codes: for every complete set of code lengths over N symbols (lengths <= MAXL): codes of equal length increase with
/// the symbol, shorter codes precede longer ones (canonical order of RFC 1951 3.2.2), hence no code is a prefix of another.
fn gen_codes_instance<const N: usize, const MAXL: u16>() {
    let lens: [u16; N] = kani::any();
    let mut tree = [Value::new(0, 0); N];
    let mut bl_count = [0u16; MAX_BITS + 1];
    let mut kraft: u32 = 0;
    let mut max_code = 0usize;
    let mut i = 0;
    while i < N {
        kani::assume(lens[i] <= MAXL);
        tree[i] = Value::new(0xAAAA, lens[i]);
        bl_count[lens[i] as usize] += 1;
        if lens[i] != 0 {
            kraft += 1 << (MAXL - lens[i]);
            max_code = i;
        }
        i += 1;
    }
    bl_count[0] = 0;
    // precondition established by gen_bitlen (decided by kd4_build_tree_*): the code is complete
    kani::assume(kraft == 1 << MAXL);
    gen_codes(&mut tree, max_code, &bl_count);
    let mut i = 0;
    while i < N {
        let li = tree[i].len();
        assert!(li == lens[i], "lengths are not touched");
        if li != 0 {
            assert!(tree[i].code() >> li == 0, "the code fits in its length");
            let ci = rev(tree[i].code(), li) as u32;
            let mut j = 0;
            while j < N {
                let lj = tree[j].len();
                if j != i && lj != 0 && li <= lj {
                    let cj = rev(tree[j].code(), lj) as u32;
                    // canonical order: compare the codes left-aligned to the longer length
                    let ci_ext = ci << (lj - li);
                    if li == lj {
                        assert!((i < j) == (ci < cj), "equal lengths: codes increase with the symbol");
                    } else {
                        assert!(ci_ext < cj, "shorter codes precede longer ones");
                    }
                    assert!(cj >> (lj - li) != ci, "prefix-free");
                }
                j += 1;
            }
        }
        i += 1;
    }
    kani::cover!(lens[0] == MAXL && lens[1] == 1);
    kani::cover!(lens[0] == 0 && lens[N - 1] == 2);
}

#[kani::proof]
#[kani::unwind(18)]
#[kani::stub(core::fmt::write, stub_fmt_write)]
#[kani::stub(core::panicking::panic_nounwind, stub_pn)]
#[kani::stub(core::panicking::panic_nounwind_fmt, stub_pnf)]
fn kd4_gen_codes_n5() {
    gen_codes_instance::<5, 4>();
}

#[kani::proof]
#[kani::unwind(18)]
#[kani::stub(core::fmt::write, stub_fmt_write)]
#[kani::stub(core::panicking::panic_nounwind, stub_pn)]
#[kani::stub(core::panicking::panic_nounwind_fmt, stub_pnf)]
fn kd4_gen_codes_n8() {
    gen_codes_instance::<8, 7>();
}

/// `Heap::initialize` with its branch condition made syntactically concrete: the harness plants a marker (dad/len half == 1)
/// on exactly the symbols it gives a non-zero frequency, the model branches on the marker and asserts that the real test
/// (`freq > 0`) agrees.  Otherwise the body is the real one.  With the real test the number of heap entries is a symbolic
/// sum and every later heap access a symbolic index (out of memory at 16 GB even for two symbols).
pub(crate) fn stub_heap_initialize_marked(h: &mut Heap, tree: &mut [Value]) -> isize {
    let mut max_code = -1;
    h.heap_len = 0;
    h.heap_max = HEAP_SIZE;
    let mut n = 0;
    while n < tree.len() {
        let used = tree[n].dad() == 1;
        assert!(used == (tree[n].freq() > 0), "marker agrees with the real test");
        if used {
            h.heap_len += 1;
            h.heap[h.heap_len] = n as u32;
            max_code = n as isize;
            h.depth[n] = 0;
        } else {
            *tree[n].len_mut() = 0;
        }
        n += 1;
    }
    max_code
}

/// build_tree on the bit-length alphabet (19 symbols, max length 7 — the smallest real instance of the generic code):
/// K symbols at concrete positions carry symbolic non-zero frequencies, the others are unused.
fn build_tree_bl_instance<const K: usize>(pos: [usize; K], fmax: u16) {
    const N: usize = 2 * BL_CODES + 1;
    let mut w = [0u8; 2 << 4];
    let mut p = [0u16; 1 << 4];
    let mut h = [0u16; HASH_SIZE];
    let mut pe = [MaybeUninit::new(0u8); 4 * 8];
    let mut sy = [0u8; 3 * 8];
    let mut state = typed_state(&mut w, &mut p, &mut h, &mut pe, &mut sy, 4, 8, 6, 0, Strategy::Default);
    let mut desc: TreeDesc<N> = TreeDesc::EMPTY;
    desc.stat_desc = &StaticTreeDesc::BL;
    let f: [u16; K] = kani::any();
    let mut k = 0;
    while k < N {
        desc.dyn_tree[k] = Value::new(0, 0);
        k += 1;
    }
    // frequencies count the symbols of one block: their sum is bounded by the symbol buffer (lit_bufsize <= 32768, plus the
    // end-of-block symbol), so it fits the u16 the tree nodes use
    let mut total: u32 = 0;
    let mut k = 0;
    while k < K {
        kani::assume(f[k] >= 1 && f[k] <= fmax);
        total += f[k] as u32;
        desc.dyn_tree[pos[k]] = Value::new(f[k], 1); // marker, see stub_heap_initialize_marked
        k += 1;
    }
    kani::assume(total <= 65535);
    let opt0: usize = 1000;
    state.opt_len = opt0;
    state.static_len = 500;
    build_tree(&mut state, &mut desc);
    assert!(state.static_len == 500, "the bit-length alphabet has no static tree");
    assert!(desc.max_code == pos[K - 1]);
    let extra = [2usize, 3, 7];
    let mut kraft: u32 = 0;
    let mut cost: usize = 0;
    let mut s = 0;
    while s < BL_CODES {
        let len = desc.dyn_tree[s].len();
        let mut used = false;
        let mut fr = 0u16;
        let mut k = 0;
        while k < K {
            if pos[k] == s {
                used = true;
                fr = f[k];
            }
            k += 1;
        }
        if used {
            assert!(len >= 1 && len <= 7, "used symbols get a length within the limit");
            kraft += 1 << (7 - len);
            let x = if s >= 16 { extra[s - 16] } else { 0 };
            cost += fr as usize * (len as usize + x);
            // a more frequent symbol never gets a longer code
            let mut k = 0;
            while k < K {
                if f[k] > fr {
                    assert!(desc.dyn_tree[pos[k]].len() <= len);
                }
                k += 1;
            }
        } else {
            assert!(len == 0, "unused symbols get no code");
        }
        s += 1;
    }
    assert!(kraft == 128, "the code is complete (Kraft sum == 1)");
    assert!(state.opt_len == opt0 + cost, "opt_len accounts for exactly the bits the block will take");
    kani::cover!(desc.dyn_tree[pos[0]].len() == 1);
    kani::cover!(K < 3 || desc.dyn_tree[pos[0]].len() == (K as u16) - 1);
    core::mem::forget(state);
}

macro_rules! build_tree_harness {
    ($name:ident, $k:expr, $pos:expr, $fmax:expr) => {
        #[kani::proof]
        #[kani::unwind(42)]
        #[kani::stub(core::fmt::write, stub_fmt_write)]
        #[kani::stub(core::panicking::panic_nounwind, stub_pn)]
        #[kani::stub(core::panicking::panic_nounwind_fmt, stub_pnf)]
        #[kani::stub(crate::deflate::Heap::initialize, stub_heap_initialize_marked)]
        fn $name() {
            build_tree_bl_instance::<$k>($pos, $fmax);
        }
    };
}
build_tree_harness!(kd4_build_tree_bl_k2, 2, [0, 18], 65535);
build_tree_harness!(kd4_build_tree_bl_k3, 3, [0, 8, 17], 65535);
build_tree_harness!(kd4_build_tree_bl_k4, 4, [0, 5, 16, 18], 65535);
// k = 5 (positions 0, 3, 8, 17, 18) did not finish in 2400 s: not built

/// A single used symbol: zlib forces a second code so that at least one bit is sent (pkzip requirement)
#[kani::proof]
#[kani::unwind(42)]
#[kani::stub(core::fmt::write, stub_fmt_write)]
#[kani::stub(core::panicking::panic_nounwind, stub_pn)]
#[kani::stub(core::panicking::panic_nounwind_fmt, stub_pnf)]
#[kani::stub(crate::deflate::Heap::initialize, stub_heap_initialize_marked)]
fn kd4_build_tree_bl_single() {
    const N: usize = 2 * BL_CODES + 1;
    let mut w = [0u8; 2 << 4];
    let mut p = [0u16; 1 << 4];
    let mut h = [0u16; HASH_SIZE];
    let mut pe = [MaybeUninit::new(0u8); 4 * 8];
    let mut sy = [0u8; 3 * 8];
    let mut state = typed_state(&mut w, &mut p, &mut h, &mut pe, &mut sy, 4, 8, 6, 0, Strategy::Default);
    let mut desc: TreeDesc<N> = TreeDesc::EMPTY;
    desc.stat_desc = &StaticTreeDesc::BL;
    let which: u8 = kani::any();
    kani::assume(which <= 2); // the used symbol is 0, 1 or 7
    let sym = if which == 2 { 7 } else { which as usize };
    let f: u16 = kani::any();
    kani::assume(f >= 1 && f <= 65534); // symbols of one block, see build_tree_bl_instance
    desc.dyn_tree[sym] = Value::new(f, 1);
    state.opt_len = 1000;
    build_tree(&mut state, &mut desc);
    // exactly two symbols have length 1, all others 0
    let mut ones = 0;
    let mut other = BL_CODES;
    let mut s = 0;
    while s < BL_CODES {
        let len = desc.dyn_tree[s].len();
        assert!(len <= 1);
        if len == 1 {
            ones += 1;
            if s != sym {
                other = s;
            }
        }
        s += 1;
    }
    assert!(ones == 2 && desc.dyn_tree[sym].len() == 1 && other < BL_CODES);
    assert!(desc.dyn_tree[sym].code() != desc.dyn_tree[other].code() && desc.dyn_tree[sym].code() <= 1 && desc.dyn_tree[other].code() <= 1);
    assert!(desc.max_code == if sym > other { sym } else { other });
    kani::cover!(sym == 7);
    core::mem::forget(state);
}

// ---------------------------------------------------------------------------------------------------------------
// KD5: send_tree / scan_tree against a reference decoder of the code-length sequence (RFC 1951 3.2.7)
// ---------------------------------------------------------------------------------------------------------------
const fn fixed5_bl_tree() -> [Value; 2 * BL_CODES + 1] {
    // every bit-length symbol s gets the 5-bit code s (stored bit-reversed, as gen_codes does)
    let mut t = [Value::new(0, 0); 2 * BL_CODES + 1];
    let mut s = 0;
    while s < BL_CODES {
        t[s] = Value::new(((s as u16).reverse_bits()) >> 11, 5);
        s += 1;
    }
    t
}

/// N code lengths (symbolic, 0..=15; max_code = N - 1) are run-length coded by send_tree with a fixed 5-bit code for the
/// bit-length alphabet; the reference decoder reads the items back: same lengths, exactly N of them, never a repeat of
/// "previous" without a previous length; scan_tree counted exactly the symbols that were sent.
fn send_tree_instance<const N: usize, const NZ: usize>() {
    const BL: [Value; 2 * BL_CODES + 1] = fixed5_bl_tree();
    // the first NZ lengths are concrete zeros (long zero runs: code 18 needs at least 11), the rest symbolic
    let sym_lens: [u16; N] = kani::any();
    let mut lens = [0u16; N];
    let mut tree = [Value::new(0, 0); 16];
    let mut i = NZ;
    while i < N {
        kani::assume(sym_lens[i] <= 15);
        lens[i] = sym_lens[i];
        tree[i] = Value::new(0, lens[i]);
        i += 1;
    }
    let mut bl_desc: TreeDesc<{ 2 * BL_CODES + 1 }> = TreeDesc::EMPTY;
    scan_tree(&mut bl_desc, &mut tree, N - 1);
    assert!(tree[N].len() == 0xffff, "guard after the last code");
    let mut mem = [MaybeUninit::<u8>::new(0); 64];
    let pending = unsafe { Pending::from_raw_parts(mem.as_mut_ptr(), 64) };
    let mut bw = BitWriter::from_pending(pending);
    bw.send_tree(&tree, &BL, N - 1);
    let nbits = bw.pending.pending().len() as u32 * 8 + bw.bits_valid as u32;
    bw.emit_align();
    let out = bw.pending.pending();
    // at most 13 items of <= 12 bits: everything fits one 128-bit word (little endian, RFC 1951 bit order)
    assert!(out.len() <= 16);
    let mut word: u128 = 0;
    let mut k = 0;
    while k < 16 {
        if k < out.len() {
            word |= (out[k] as u128) << (8 * k);
        }
        k += 1;
    }
    // reference decoder
    let mut pos: u32 = 0;
    let mut got = [0u16; 16];
    let mut n = 0usize;
    let mut sent = [0u16; BL_CODES];
    let mut guard = 0;
    while n < N && guard < N {
        guard += 1;
        let sym = rev(take(word, &mut pos, 5) as u16, 5) as usize;
        assert!(sym < BL_CODES);
        sent[sym] += 1;
        if sym < 16 {
            got[n] = sym as u16;
            n += 1;
        } else {
            let (base, xb) = if sym == 16 { (3, 2) } else if sym == 17 { (3, 3) } else { (11, 7) };
            let rep = base + take(word, &mut pos, xb) as usize;
            assert!(sym != 16 || n > 0, "repeat-previous needs a previous length");
            let v = if sym == 16 { got[n - 1] } else { 0 };
            assert!(n + rep <= N, "a run never crosses the end of the sequence");
            let mut r = 0;
            while r < rep {
                got[n] = v;
                n += 1;
                r += 1;
            }
        }
    }
    assert!(n == N && pos == nbits, "exactly N lengths, every bit accounted for");
    let mut i = 0;
    while i < N {
        assert!(got[i] == lens[i]);
        i += 1;
    }
    let mut s = 0;
    while s < BL_CODES {
        assert!(bl_desc.dyn_tree[s].freq() == sent[s], "scan_tree predicts what send_tree sends");
        s += 1;
    }
    kani::cover!(sent[16] + sent[17] + sent[18] >= 1, "a run-length item was used");
    kani::cover!(sent[16] + sent[17] + sent[18] == 0 && NZ == 0 || NZ > 0 && sent[18] == 1, "plain lengths only / the long zero run");
}

fn take(word: u128, pos: &mut u32, n: u32) -> u32 {
    let v = ((word >> *pos) & ((1u128 << n) - 1)) as u32;
    *pos += n;
    v
}

macro_rules! send_tree_harness {
    ($name:ident, $n:expr, $nz:expr) => {
        #[kani::proof]
        #[kani::unwind(22)]
        #[kani::stub(core::fmt::write, stub_fmt_write)]
        #[kani::stub(core::panicking::panic_nounwind, stub_pn)]
        #[kani::stub(core::panicking::panic_nounwind_fmt, stub_pnf)]
        fn $name() {
            send_tree_instance::<$n, $nz>();
        }
    };
}
send_tree_harness!(kd5_send_tree_n4, 4, 0);
send_tree_harness!(kd5_send_tree_n5, 5, 0);
send_tree_harness!(kd5_send_tree_n7, 7, 0);
send_tree_harness!(kd5_send_tree_z11_n13, 13, 11);

// ---------------------------------------------------------------------------------------------------------------
// build_bl_tree: how many code lengths of the code-length alphabet are announced (HCLEN).  RFC 1951 3.2.7 sends them in the
// order 16, 17, 18, 0, 8, 7, 9, 6, 10, 5, 11, 4, 12, 3, 13, 2, 14, 1, 15; every symbol that has a code must be among the
// announced ones, trailing unused ones are cut (at least 4 stay).  scan_tree and build_tree are decided by KD5 and the
// harnesses above and are stubbed away here: the bit-length tree is given, with any lengths.
// ---------------------------------------------------------------------------------------------------------------
const RFC_CL_ORDER: [usize; 19] = [16, 17, 18, 0, 8, 7, 9, 6, 10, 5, 11, 4, 12, 3, 13, 2, 14, 1, 15];

pub(crate) fn stub_scan_tree_nop(_bl: &mut TreeDesc<{ 2 * BL_CODES + 1 }>, _tree: &mut [Value], _max_code: usize) {}
pub(crate) fn stub_build_tree_nop<const N: usize>(_state: &mut State, _desc: &mut TreeDesc<N>) {}

#[kani::proof]
#[kani::unwind(26)] // mem::swap of the TreeDesc (172 bytes) is a chunked byte-swap loop
#[kani::stub(core::fmt::write, stub_fmt_write)]
#[kani::stub(core::panicking::panic_nounwind, stub_pn)]
#[kani::stub(core::panicking::panic_nounwind_fmt, stub_pnf)]
#[kani::stub(crate::deflate::scan_tree, stub_scan_tree_nop)]
#[kani::stub(crate::deflate::build_tree, stub_build_tree_nop)]
fn kd4_build_bl_tree_announces_every_used_length() {
    let mut w = [0u8; 2 << 4];
    let mut p = [0u16; 1 << 4];
    let mut h = [0u16; HASH_SIZE];
    let mut pe = [MaybeUninit::new(0u8); 4 * 8];
    let mut sy = [0u8; 3 * 8];
    let mut state = typed_state(&mut w, &mut p, &mut h, &mut pe, &mut sy, 4, 8, 6, 0, Strategy::Default);
    let lens: [u8; BL_CODES] = kani::any();
    let mut s = 0;
    while s < BL_CODES {
        kani::assume(lens[s] <= 7);
        state.bl_desc.dyn_tree[s] = Value::new(0, lens[s] as u16);
        s += 1;
    }
    // invariant of every real call: the literal tree always contains the end-of-block symbol, whose non-zero length is one
    // of 1..=15 and is counted by scan_tree — so at least one of those symbols has a code (with only 16/17/18 in use the
    // function, like zlib's, would announce 3 lengths; no tree description can consist of repeat codes alone)
    let w: usize = kani::any();
    kani::assume(w >= 1 && w <= 15 && lens[w] != 0);
    let opt0: usize = 1000;
    state.opt_len = opt0;
    let last = build_bl_tree(&mut state);
    assert!(last >= 3 && last < BL_CODES, "at least 4, at most 19 lengths are sent");
    assert!(state.opt_len == opt0 + 3 * (last + 1) + 5 + 5 + 4);
    let k: usize = kani::any();
    kani::assume(k < BL_CODES);
    if k > last {
        assert!(lens[RFC_CL_ORDER[k]] == 0, "a symbol with a code has its length announced");
    }
    assert!(last == 3 || lens[RFC_CL_ORDER[last]] != 0, "trailing unused symbols are cut");
    kani::cover!(last == 18);
    kani::cover!(last == 4);
    kani::cover!(last == 17);
    core::mem::forget(state);
}
