//! KD9 — the encoder's window slide (`fill_window` with no input to read) and the hash-chain slide: the deferred match
//! `deflate_slow` carries across iterations still denotes equal bytes after the slide, or is dropped; positions, block start
//! and pending insertions move with the data; hash entries move down by the window size or become NIL.  C01, C06.
use super::*;

pub(crate) fn stub_slide_hash_nop(_state: &mut State) {}

/// One slide from any state `deflate_slow`/`deflate_medium` can be in when they call `fill_window` with the input used up:
/// symbolic window contents, positions and deferred match (match_start, prev_length) satisfying the loop-head invariant
/// "window[match_start + i] == window[strstart - 1 + i] for i < prev_length, distance within max_dist".
#[kani::proof]
#[kani::unwind(4)]
#[kani::stub(core::fmt::write, stub_fmt_write)]
#[kani::stub(core::panicking::panic_nounwind, stub_pn)]
#[kani::stub(core::panicking::panic_nounwind_fmt, stub_pnf)]
#[kani::stub(crate::deflate::slide_hash::slide_hash, stub_slide_hash_nop)]
fn kd9_fill_window_slide_keeps_deferred_match() {
    const WB: usize = 9;
    const W: usize = 1 << WB;
    const LB: usize = 16;
    let mut w: [u8; 2 * W] = kani::any();
    let w0 = w;
    let mut p = [0u16; W];
    let mut h = [0u16; HASH_SIZE];
    let mut pe = [MaybeUninit::new(0u8); 4 * LB];
    let mut sy = [0u8; 3 * LB];
    let mut state = typed_state(&mut w, &mut p, &mut h, &mut pe, &mut sy, WB, LB, 7, 0, Strategy::Default);
    state.window_size = 2 * W;
    state.status = Status::Busy;
    let max_dist = W - MIN_LOOKAHEAD;
    let strstart: usize = kani::any();
    let lookahead: usize = kani::any();
    kani::assume(strstart >= W + max_dist && strstart <= 2 * W && lookahead < MIN_LOOKAHEAD);
    kani::assume(strstart + lookahead <= 2 * W);
    state.strstart = strstart;
    state.lookahead = lookahead;
    let block_start: isize = kani::any();
    kani::assume(block_start >= 0 && block_start as usize <= strstart);
    state.block_start = block_start;
    let insert: usize = kani::any();
    // bytes still to be inserted into the hash table: at most 2 at levels >= 1, up to a whole window after level 0
    // (deflate_stored accumulates them for a later deflateParams)
    kani::assume(insert <= W && insert <= strstart);
    state.insert = insert;
    // the deferred match found for the string that starts at strstart - 1
    let match_start: u16 = kani::any();
    let prev_length: u16 = kani::any();
    kani::assume(prev_length as usize <= STD_MAX_MATCH && prev_length as usize <= lookahead + 1);
    let i: usize = kani::any();
    if prev_length as usize >= STD_MIN_MATCH {
        kani::assume((match_start as usize) < strstart - 1);
        let dist = strstart - 1 - match_start as usize;
        kani::assume(dist >= 1 && dist <= max_dist);
        kani::assume(i < prev_length as usize);
        kani::assume(w0[match_start as usize + i] == w0[strstart - 1 + i]);
    }
    state.match_start = match_start;
    state.prev_length = prev_length;
    let mut stream = typed_stream(unsafe { &mut *(&mut state as *mut State) });
    let input = [0u8; 1];
    stream.next_in = input.as_ptr() as *mut u8;
    stream.avail_in = 0;
    fill_window(&mut stream);
    let s = &stream.state;
    assert!(s.strstart == strstart - W && s.lookahead == lookahead, "positions move with the data");
    assert!(s.block_start == block_start - W as isize);
    assert!(s.insert <= s.strstart, "pending insertions never reach before the start of the window");
    assert!(s.insert == Ord::min(insert, strstart - W));
    // the lower half now holds what the upper half held
    let j: usize = kani::any();
    kani::assume(j < W);
    assert!(s.window.filled()[j] == w0[W + j]);
    if s.prev_length as usize >= STD_MIN_MATCH {
        assert!(s.prev_length == prev_length);
        let ms = s.match_start as usize;
        assert!(ms < s.strstart - 1 && s.strstart - 1 - ms <= max_dist, "the deferred match is still within reach");
        assert!(s.window.filled()[ms + i] == s.window.filled()[s.strstart - 1 + i], "the deferred match still denotes equal bytes");
    }
    kani::cover!(prev_length >= 3 && s.prev_length == 0, "match source slid out: dropped");
    kani::cover!(prev_length >= 3 && s.prev_length == prev_length && i == 2);
    core::mem::forget(stream);
    core::mem::forget(state);
}


/// `longest_match` walks the hash chain with a counter taken from `max_chain_length`, which deflateTune stores unchecked
/// (any integer, truncated to 16 bits).  Whatever its value — 0 included — the walk must not abort (C06: "any parameter
/// values ... never panics"); it ends at the latest when the chain leaves the window.  Concrete window and chain of three
/// candidates that all differ from the current string in their first byte; symbolic tuning parameters.
#[kani::proof]
#[kani::unwind(6)]
#[kani::stub(core::fmt::write, stub_fmt_write)]
#[kani::stub(core::panicking::panic_nounwind, stub_pn)]
#[kani::stub(core::panicking::panic_nounwind_fmt, stub_pnf)]
fn kd9_longest_match_any_chain_length() {
    const WB: usize = 9;
    const W: usize = 1 << WB;
    const LB: usize = 16;
    let mut w = [0u8; 2 * W];
    let mut k = 0;
    while k < 2 * W {
        w[k] = (k % 251) as u8;
        k += 1;
    }
    let mut p = [0u16; W];
    p[300] = 200;
    p[200] = 100;
    p[100] = 0;
    let mut h = [0u16; HASH_SIZE];
    let mut pe = [MaybeUninit::new(0u8); 4 * LB];
    let mut sy = [0u8; 3 * LB];
    let mut state = typed_state(&mut w, &mut p, &mut h, &mut pe, &mut sy, WB, LB, 6, 0, Strategy::Default);
    state.window_size = 2 * W;
    state.strstart = 400;
    state.lookahead = 262;
    state.prev_length = 0;
    state.match_start = 0;
    state.max_chain_length = kani::any();
    state.good_match = kani::any();
    state.nice_match = kani::any();
    let (len, start) = crate::deflate::longest_match::longest_match(&state, 300);
    assert!(len <= 262 && (start as usize) < 400);
    assert!(len == STD_MIN_MATCH - 1, "no candidate matches: the best length stays below the minimum");
    kani::cover!(state.max_chain_length == 0);
    kani::cover!(state.max_chain_length == 2);
    core::mem::forget(state);
}
