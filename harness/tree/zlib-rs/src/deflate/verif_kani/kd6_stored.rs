//! KD6 — level-0 path end to end on a typed state with a tiny window (C01, C05, C06, C07, C11, C15).
use super::*;

pub(crate) const WB0: usize = 4; // w_size 16: what makes symbolic lengths affordable (DESIGN.md §1)
pub(crate) const LB0: usize = 16; // pending 64 bytes

/// reference parser for a sequence of stored blocks (RFC 1951 3.2.4): returns (payload bytes, saw BFINAL)
fn parse_stored(src: &[u8], n: usize, dst: &mut [u8]) -> Option<(usize, bool, usize)> {
    let mut pos = 0;
    let mut produced = 0;
    let mut guard = 0;
    while guard < 6 {
        guard += 1;
        if pos == n {
            return Some((produced, false, pos));
        }
        if pos + 5 > n {
            return None;
        }
        let hdr = src[pos];
        if hdr & 0xfe != 0 {
            return None; // BTYPE must be 00, padding bits zero
        }
        let len = u16::from_le_bytes([src[pos + 1], src[pos + 2]]);
        let nlen = u16::from_le_bytes([src[pos + 3], src[pos + 4]]);
        if len != !nlen {
            return None;
        }
        pos += 5;
        let len = len as usize;
        if pos + len > n || produced + len > dst.len() {
            return None;
        }
        let mut k = 0;
        while k < len {
            dst[produced + k] = src[pos + k];
            k += 1;
        }
        produced += len;
        pos += len;
        if hdr & 1 != 0 {
            return Some((produced, true, pos));
        }
    }
    None
}

fn stored_one_call<const N: usize, const OUT: usize, const KMAX: usize, const LB: usize, const PEND: usize, const SYM: usize>() {
    let mut w = [0u8; 2 << WB0];
    let mut p = [0u16; 1 << WB0];
    let mut h = [0u16; HASH_SIZE];
    let mut pe = [MaybeUninit::new(0u8); PEND];
    let mut sy = [0u8; SYM];
    assert!(PEND == 4 * LB && SYM == 3 * LB);
    let mut state = typed_state(&mut w, &mut p, &mut h, &mut pe, &mut sy, WB0, LB, 0, 0, Strategy::Default);
    state.status = Status::Busy;
    state.window_size = 2 << WB0;
    state.last_flush = -2;
    // state left behind by an earlier Z_NO_FLUSH call: k bytes buffered in the window, not yet emitted
    let buffered: [u8; 4] = kani::any();
    let k: usize = if KMAX == 0 { 0 } else { kani::any() };
    kani::assume(k <= KMAX && KMAX <= 4);
    let mut i = 0;
    while i < 4 {
        if i < k {
            state.window.filled_mut()[i] = buffered[i];
        }
        i += 1;
    }
    state.strstart = k;
    state.insert = k;
    state.block_start = 0;
    let mut stream = typed_stream(unsafe { &mut *(&mut state as *mut State) });
    stream.total_in = k as _;
    let input: [u8; N] = kani::any();
    let n: u32 = kani::any();
    kani::assume(n as usize <= N);
    let init: [u8; OUT] = kani::any();
    let mut out = init;
    let avail_out: u32 = kani::any();
    kani::assume(avail_out >= 1 && avail_out as usize <= OUT - 2);
    let fsel: u8 = kani::any();
    kani::assume(fsel < 4);
    let flush = match fsel {
        0 => DeflateFlush::NoFlush,
        1 => DeflateFlush::SyncFlush,
        2 => DeflateFlush::FullFlush,
        _ => DeflateFlush::Finish,
    };
    stream.next_in = input.as_ptr() as *mut u8;
    stream.avail_in = n;
    stream.next_out = out.as_mut_ptr();
    stream.avail_out = avail_out;
    let bs = self::algorithm::run(&mut stream, flush);
    let produced = (avail_out - stream.avail_out) as usize;
    let consumed = (n - stream.avail_in) as usize;
    // cursors and counters account exactly for the bytes moved (C15)
    assert!(stream.avail_out <= avail_out && stream.avail_in <= n);
    assert!(stream.total_out as usize == produced);
    assert!(stream.total_in as usize == k + consumed);
    assert!(stream.next_in as usize == input.as_ptr() as usize + consumed);
    assert!(stream.next_out as usize == out.as_ptr() as usize + produced);
    // nothing written beyond what was reported as produced (symbolic index instead of a loop)
    let i: usize = kani::any();
    kani::assume(i < OUT && i >= produced);
    assert!(out[i] == init[i]);
    let pending = stream.state.bit_writer.pending.pending().len();
    let in_window = stream.state.strstart as isize - stream.state.block_start;
    assert!(in_window >= 0);
    // everything consumed is either in the output, pending, or still buffered in the window
    let mut back = [0u8; 12]; // >= N + 4 for every instantiation
    let total = k + n as usize; // everything supplied so far
    let expect_at = |j: usize| -> u8 { if j < k { buffered[j] } else { input[j - k] } };
    match bs {
        BlockState::FinishDone => {
            assert!(matches!(flush, DeflateFlush::Finish) && consumed == n as usize && pending == 0);
            let r = parse_stored(&out, produced, &mut back);
            assert!(r == Some((total, true, produced)));
            let j: usize = kani::any();
            kani::assume(j < total);
            assert!(back[j] == expect_at(j));
            // size: one header per block, never more than deflateBound for level 0 (C07)
            assert!(k != 0 || produced <= bound(Some(&mut stream), n as usize));
        }
        BlockState::FinishStarted => {
            assert!(matches!(flush, DeflateFlush::Finish) && consumed == n as usize && stream.avail_out == 0);
            // the final block has been declared: nothing supplied so far may still be waiting in the window
            assert!(in_window == 0, "final block emitted while input is still buffered: the tail would be lost");
        }
        BlockState::BlockDone => {
            // flush point: all input so far is decodable from the output (C11)
            assert!(!matches!(flush, DeflateFlush::NoFlush | DeflateFlush::Finish));
            assert!(consumed == n as usize && in_window == 0 && pending == 0);
            let r = parse_stored(&out, produced, &mut back);
            assert!(r == Some((total, false, produced)), "flush point: everything supplied so far is decodable from the output");
            let j: usize = kani::any();
            kani::assume(j < total);
            assert!(back[j] == expect_at(j));
        }
        BlockState::NeedMore => {
            // progress: a Finish call may only ask for more output space while there still is something to emit
            // (unconsumed input, or input buffered in the window); otherwise repeated Finish calls would never end
            assert!(!matches!(flush, DeflateFlush::Finish) || stream.avail_in > 0 || in_window > 0,
                "Finish made no progress towards the end of the stream");
        }
    }
    // C07 at level 0: room for one block header plus everything supplied is room for the whole stream, and the call that
    // writes it reports it done (deflate() turns FinishDone into StreamEnd, anything else into Ok) — also when the block
    // fills the buffer to the last byte
    if matches!(flush, DeflateFlush::Finish) && avail_out as usize >= total + 5 {
        assert!(matches!(bs, BlockState::FinishDone), "a Finish call with room for the complete stored stream completes it");
    }
    kani::cover!(matches!(bs, BlockState::FinishDone) && avail_out as usize == total + 5 && total > 0);
    kani::cover!(matches!(bs, BlockState::FinishDone) && n as usize == N);
    kani::cover!(matches!(bs, BlockState::FinishStarted));
    kani::cover!(matches!(bs, BlockState::BlockDone) && n > 0);
    kani::cover!(matches!(bs, BlockState::NeedMore) && consumed > 0);
    core::mem::forget(stream);
    core::mem::forget(state);
}

#[kani::proof]
#[kani::unwind(10)]
#[kani::stub(core::fmt::write, stub_fmt_write)]
#[kani::stub(core::panicking::panic_nounwind, stub_pn)]
#[kani::stub(core::panicking::panic_nounwind_fmt, stub_pnf)]
fn kd6_stored_one_call() {
    stored_one_call::<6, 26, 0, 16, 64, 48>();
}

/// the same call from the state an earlier Z_NO_FLUSH call leaves behind (0..=3 bytes buffered in the window):
/// covers flushes that have to emit previously buffered input and complete over several calls (C11, C06)
#[kani::proof]
#[kani::unwind(10)]
#[kani::stub(core::fmt::write, stub_fmt_write)]
#[kani::stub(core::panicking::panic_nounwind, stub_pn)]
#[kani::stub(core::panicking::panic_nounwind_fmt, stub_pnf)]
fn kd6_stored_resume() {
    stored_one_call::<3, 20, 3, 16, 64, 48>();
}

/// pending buffer of 8 bytes (room for a 3-byte stored block): buffered input no longer fits one block, so the data
/// leaves through several small blocks and only the last of them may carry BFINAL (C01, C05)
#[kani::proof]
#[kani::unwind(10)]
#[kani::stub(core::fmt::write, stub_fmt_write)]
#[kani::stub(core::panicking::panic_nounwind, stub_pn)]
#[kani::stub(core::panicking::panic_nounwind_fmt, stub_pnf)]
fn kd6_stored_tiny_pending() {
    stored_one_call::<2, 20, 4, 2, 8, 6>();
}

/// flush tail (C11): three bytes buffered by an earlier Z_NO_FLUSH call, no new input, a sync or full flush with any
/// output space 0..=12 - in particular too little for the block header plus what is buffered.  `BlockDone` (after which
/// deflate() writes the 00 00 FF FF marker) is only reported once nothing supplied so far is still waiting in the window.
#[kani::proof]
#[kani::unwind(10)]
#[kani::stub(core::fmt::write, stub_fmt_write)]
#[kani::stub(core::panicking::panic_nounwind, stub_pn)]
#[kani::stub(core::panicking::panic_nounwind_fmt, stub_pnf)]
fn kd6_stored_flush_tail_k3() {
    let mut w = [0u8; 2 << WB0];
    let mut p = [0u16; 1 << WB0];
    let mut h = [0u16; HASH_SIZE];
    let mut pe = [MaybeUninit::new(0u8); 64];
    let mut sy = [0u8; 48];
    let mut state = typed_state(&mut w, &mut p, &mut h, &mut pe, &mut sy, WB0, 16, 0, 0, Strategy::Default);
    state.status = Status::Busy;
    state.window_size = 2 << WB0;
    state.last_flush = -2;
    let buffered: [u8; 3] = kani::any();
    let k: usize = 3; // concrete: a symbolic count of buffered bytes ran out of memory at 12 GB
    let mut i = 0;
    while i < 3 {
        if i < k {
            state.window.filled_mut()[i] = buffered[i];
        }
        i += 1;
    }
    state.strstart = k;
    state.insert = k;
    state.block_start = 0;
    let mut stream = typed_stream(unsafe { &mut *(&mut state as *mut State) });
    stream.total_in = k as _;
    let input = [0u8; 1];
    let mut out = [0u8; 14];
    let avail_out: u32 = kani::any();
    kani::assume(avail_out <= 12);
    let flush = if kani::any() { DeflateFlush::SyncFlush } else { DeflateFlush::FullFlush };
    stream.next_in = input.as_ptr() as *mut u8;
    stream.avail_in = 0;
    stream.next_out = out.as_mut_ptr();
    stream.avail_out = avail_out;
    let bs = self::algorithm::run(&mut stream, flush);
    let produced = (avail_out - stream.avail_out) as usize;
    let pending = stream.state.bit_writer.pending.pending().len();
    let in_window = stream.state.strstart as isize - stream.state.block_start;
    assert!(in_window >= 0 && in_window as usize <= k);
    match bs {
        BlockState::BlockDone => {
            assert!(in_window == 0, "flush point reported while supplied input is still waiting in the window");
            assert!(pending == 0, "flush point reported while block bytes are still pending");
            if k > 0 {
                assert!(produced == 5 + k && out[0] == 0 && out[1] == k as u8 && out[2] == 0 && out[3] == !(k as u8) && out[4] == 0xff);
                let j: usize = kani::any();
                kani::assume(j < k);
                assert!(out[5 + j] == buffered[j]);
            } else {
                assert!(produced == 0);
            }
        }
        BlockState::NeedMore => {
            assert!(stream.avail_out == 0 || in_window > 0 || pending > 0);
        }
        _ => panic!("a flush call neither finishes the stream nor starts to"),
    }
    kani::cover!(matches!(bs, BlockState::BlockDone) && k == 3);
    kani::cover!(matches!(bs, BlockState::NeedMore) && k == 3 && avail_out == 6);
    core::mem::forget(stream);
    core::mem::forget(state);
}

/// window history (C01, C13): after a level-0 call that copied more than a window's worth of input straight to the output,
/// the window holds the LAST w_size bytes taken in, ending at strstart - that is what the match finder uses as history once
/// deflateParams() leaves level 0, and what deflateGetDictionary reports.  18 symbolic input bytes into a 16-byte window,
/// output space for a block of 16, 17 or 18 bytes (the rest is buffered by read_buf_window).
#[kani::proof]
#[kani::unwind(6)]
#[kani::stub(core::fmt::write, stub_fmt_write)]
#[kani::stub(core::panicking::panic_nounwind, stub_pn)]
#[kani::stub(core::panicking::panic_nounwind_fmt, stub_pnf)]
fn kd6_stored_window_holds_the_latest_input() {
    let mut w = [0u8; 2 << WB0];
    let mut p = [0u16; 1 << WB0];
    let mut h = [0u16; HASH_SIZE];
    let mut pe = [MaybeUninit::new(0u8); 64];
    let mut sy = [0u8; 48];
    let mut state = typed_state(&mut w, &mut p, &mut h, &mut pe, &mut sy, WB0, 16, 0, 0, Strategy::Default);
    state.status = Status::Busy;
    state.window_size = 2 << WB0;
    state.last_flush = -2;
    state.strstart = 0;
    state.insert = 0;
    state.block_start = 0;
    let mut stream = typed_stream(unsafe { &mut *(&mut state as *mut State) });
    const N: usize = 18;
    let input: [u8; N] = kani::any();
    let mut out = [0u8; 32];
    let avail_out: u32 = kani::any();
    kani::assume(avail_out >= 21 && avail_out <= 24);
    let flush = if kani::any() { DeflateFlush::NoFlush } else { DeflateFlush::SyncFlush };
    stream.next_in = input.as_ptr() as *mut u8;
    stream.avail_in = N as u32;
    stream.next_out = out.as_mut_ptr();
    stream.avail_out = avail_out;
    let _bs = self::algorithm::run(&mut stream, flush);
    let consumed = N - stream.avail_in as usize;
    let s = stream.state.strstart;
    let hist = if consumed < 16 { consumed } else { 16 };
    assert!(consumed >= 16, "a block of at least w_size bytes fits the output");
    assert!(s >= hist && s <= 2 << WB0, "the window holds min(bytes taken in, w_size) bytes of history below strstart");
    let i: usize = kani::any();
    kani::assume(i < hist);
    assert!(stream.state.window.filled()[s - 1 - i] == input[consumed - 1 - i], "window history = the most recent input, in order");
    assert!(stream.state.block_start <= s as isize && stream.state.insert <= s);
    kani::cover!(consumed == 18 && s == 16);
    kani::cover!(consumed == 18 && s == 18);
    core::mem::forget(stream);
    core::mem::forget(state);
}

// ---------------------------------------------------------------------------------------------
// production sizes: the stored block built in the pending buffer when the output is (nearly) full.  With memLevel 9 the
// pending buffer (128 KiB) is larger than the 64 KiB window, so the only thing that keeps the block within the 16-bit LEN
// field of RFC 1951 3.2.4 is deflate_stored's own clamp.
// ---------------------------------------------------------------------------------------------
static mut SB_LEN: usize = usize::MAX;
static mut SB_CALLS: usize = 0;

/// contract of `zng_tr_stored_block`: LEN is a 16-bit field, the payload comes out of the window
pub(crate) fn stub_stored_block_contract(state: &mut State, window_range: core::ops::Range<usize>, _is_last: bool) {
    assert!(window_range.start <= window_range.end && window_range.end <= state.window_size);
    assert!(window_range.end - window_range.start <= 65535, "a stored block holds at most 65535 bytes (16-bit LEN)");
    unsafe {
        SB_LEN = window_range.end - window_range.start;
        SB_CALLS += 1;
    }
}

#[kani::proof]
#[kani::unwind(3)]
#[kani::stub(core::fmt::write, stub_fmt_write)]
#[kani::stub(core::panicking::panic_nounwind, stub_pn)]
#[kani::stub(core::panicking::panic_nounwind_fmt, stub_pnf)]
#[kani::stub(crate::deflate::zng_tr_stored_block, stub_stored_block_contract)]
fn kd6_stored_pending_block_fits_len16() {
    const WB: usize = 15;
    const LB: usize = 32768; // memLevel 9
    let mut w = [0u8; 2 << WB];
    let mut p = [0u16; 1 << WB];
    let mut h = [0u16; HASH_SIZE];
    let mut pe = [MaybeUninit::new(0u8); 4 * LB];
    let mut sy = [0u8; 3 * LB];
    let mut state = typed_state(&mut w, &mut p, &mut h, &mut pe, &mut sy, WB, LB, 0, 0, Strategy::Default);
    state.status = Status::Busy;
    state.window_size = 2 << WB;
    state.last_flush = -2;
    // the window holds `left` bytes that no block has taken yet (buffered by earlier calls that had no output room)
    let strstart: usize = kani::any();
    let block_start: usize = kani::any();
    kani::assume(strstart <= 2 << WB && block_start <= strstart);
    state.strstart = strstart;
    state.block_start = block_start as isize;
    state.insert = 0;
    let left = strstart - block_start;
    let mut stream = typed_stream(unsafe { &mut *(&mut state as *mut State) });
    let mut out = [0u8; 8];
    let avail_out: u32 = kani::any();
    kani::assume(avail_out <= 4); // not even room for a block header: the direct-copy loop is not entered
    stream.next_out = out.as_mut_ptr();
    stream.avail_out = avail_out;
    stream.avail_in = 0;
    let flush = match kani::any::<u8>() % 4 {
        0 => DeflateFlush::NoFlush,
        1 => DeflateFlush::SyncFlush,
        2 => DeflateFlush::FullFlush,
        _ => DeflateFlush::Finish,
    };
    unsafe {
        SB_LEN = usize::MAX;
        SB_CALLS = 0;
    }
    let bs = self::algorithm::run(&mut stream, flush);
    let taken = stream.state.block_start as usize - block_start;
    // (holds natively whatever the block writer does)
    assert!(taken <= 65535, "one stored block takes at most 65535 bytes out of the window");
    assert!(stream.state.strstart == strstart && stream.state.block_start as usize <= strstart);
    let (calls, len) = unsafe { (SB_CALLS, SB_LEN) };
    assert!(calls <= 1);
    if calls == 1 {
        assert!(len == taken);
        assert!(matches!(bs, BlockState::FinishStarted) == (matches!(flush, DeflateFlush::Finish) && taken == left));
    } else {
        assert!(taken == 0);
    }
    // a worthy block (>= w_size bytes waiting) is always written
    assert!(calls == 1 || left < 32768 || (left == 0));
    kani::cover!(calls == 1 && len == 65535 && left == 65536);
    kani::cover!(calls == 0);
    core::mem::forget(stream);
    core::mem::forget(state);
}
