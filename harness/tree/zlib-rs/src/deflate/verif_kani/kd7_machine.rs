//! KD7 — `deflate()`'s own status machine with the compress function replaced by a contract stub (DESIGN.md U4):
//! wrappers (RFC 1950 / RFC 1952 headers and trailers), flush markers, status codes, progress (C05, C06, C11, C13, C15, C20).
use super::*;

pub(crate) const WB7: usize = 9;
pub(crate) const LB7: usize = 16; // pending 64 bytes

/// contract stub for `algorithm::run`: consumes all input, emits nothing, completes according to `flush`
pub(crate) fn stub_run_consume_all(stream: &mut DeflateStream, flush: DeflateFlush) -> BlockState {
    stream.total_in += stream.avail_in as crate::c_api::z_size;
    stream.next_in = stream.next_in.wrapping_add(stream.avail_in as usize);
    stream.avail_in = 0;
    match flush {
        DeflateFlush::Finish => BlockState::FinishDone,
        DeflateFlush::NoFlush => BlockState::NeedMore,
        _ => BlockState::BlockDone,
    }
}

fn any_strategy() -> Strategy {
    let st: u8 = kani::any();
    kani::assume(st < 5);
    match st {
        0 => Strategy::Default,
        1 => Strategy::Filtered,
        2 => Strategy::HuffmanOnly,
        3 => Strategy::Rle,
        _ => Strategy::Fixed,
    }
}

/// zlib wrapper: RFC 1950 header for every level x strategy x dictionary, marker after sync/full flush, Adler trailer
#[kani::proof]
#[kani::unwind(10)]
#[kani::stub(core::fmt::write, stub_fmt_write)]
#[kani::stub(core::panicking::panic_nounwind, stub_pn)]
#[kani::stub(core::panicking::panic_nounwind_fmt, stub_pnf)]
#[kani::stub(crate::deflate::algorithm::run, stub_run_consume_all)]
#[kani::stub(<[u16]>::fill, stub_fill_zero)]
fn kd7_zlib_wrapper() {
    let mut w = [0u8; 2 << WB7];
    let mut p = [0u16; 1 << WB7];
    let mut h = [0u16; HASH_SIZE];
    let mut pe = [MaybeUninit::new(0u8); 4 * LB7];
    let mut sy = [0u8; 3 * LB7];
    let level: i8 = kani::any();
    kani::assume(level >= 0 && level <= 9);
    let strategy = any_strategy();
    let mut state = typed_state(&mut w, &mut p, &mut h, &mut pe, &mut sy, WB7, LB7, level, 1, strategy);
    state.window_size = 2 << WB7;
    state.last_flush = -2;
    state.status = Status::Init;
    let has_dict: bool = kani::any();
    state.strstart = if has_dict { 5 } else { 0 };
    let mut stream = typed_stream(unsafe { &mut *(&mut state as *mut State) });
    let dictid: u32 = kani::any();
    stream.adler = if has_dict { dictid as _ } else { 1 };
    let input = [1u8, 2, 3];
    let mut out = [0u8; 16];
    let fsel: u8 = kani::any();
    kani::assume(fsel < 5);
    let flush = match fsel {
        0 => DeflateFlush::Finish,
        1 => DeflateFlush::SyncFlush,
        2 => DeflateFlush::FullFlush,
        3 => DeflateFlush::PartialFlush,
        _ => DeflateFlush::Block,
    };
    stream.next_in = input.as_ptr() as *mut u8;
    stream.avail_in = 3;
    stream.next_out = out.as_mut_ptr();
    stream.avail_out = 16;
    let rc = deflate(&mut stream, flush);
    let produced = 16 - stream.avail_out as usize;
    // RFC 1950 header
    let cmf = out[0];
    let flg = out[1];
    assert!(cmf & 0x0f == 8, "CM = 8");
    assert!((cmf >> 4) as usize + 8 == WB7, "CINFO announces the window actually used");
    assert!(((cmf as u16) << 8 | flg as u16) % 31 == 0, "FCHECK");
    assert!((flg & 0x20 != 0) == has_dict, "FDICT");
    let flevel = flg >> 6;
    let expect_flevel = if strategy >= Strategy::HuffmanOnly || level < 2 { 0 } else if level < 6 { 1 } else if level == 6 { 2 } else { 3 };
    assert!(flevel == expect_flevel, "FLEVEL hint");
    let hdr = if has_dict { 6 } else { 2 };
    if has_dict {
        assert!(u32::from_be_bytes([out[2], out[3], out[4], out[5]]) == dictid, "DICTID = Adler-32 of the dictionary, big endian");
    }
    match flush {
        DeflateFlush::Finish => {
            assert!(rc == ReturnCode::StreamEnd);
            assert!(produced == hdr + 4);
            // the stub emitted no data; the running Adler was reset to 1 after the header
            assert!(out[hdr] == 0 && out[hdr + 1] == 0 && out[hdr + 2] == 0 && out[hdr + 3] == 1);
        }
        DeflateFlush::SyncFlush | DeflateFlush::FullFlush => {
            assert!(rc == ReturnCode::Ok);
            assert!(produced == hdr + 5, "byte-aligned empty stored block");
            assert!(out[hdr] == 0 && out[hdr + 1] == 0 && out[hdr + 2] == 0 && out[hdr + 3] == 0xff && out[hdr + 4] == 0xff);
        }
        DeflateFlush::PartialFlush => {
            assert!(rc == ReturnCode::Ok);
            // empty static block: 10 bits -> one whole byte out, 2 bits stay in the register
            assert!(produced == hdr + 1 && out[hdr] == 0b0000_0010);
            assert!(stream.state.bit_writer.bits_valid == 2 && stream.state.bit_writer.bit_buffer == 0);
        }
        _ => {
            assert!(rc == ReturnCode::Ok && produced == hdr);
        }
    }
    assert!(stream.total_out as usize == produced && stream.total_in == 3 && stream.avail_in == 0);
    if matches!(flush, DeflateFlush::FullFlush) {
        assert!(stream.state.strstart == 0 && stream.state.block_start == 0 && stream.state.insert == 0);
        let i: usize = kani::any();
        kani::assume(i < HASH_SIZE);
        assert!(stream.state.head.as_slice()[i] == 0, "history forgotten after a full flush");
    }
    // a second identical flush with no new input is refused without side effects (duplicate-flush rule), Finish repeats StreamEnd
    let before = stream.avail_out;
    let rc2 = deflate(&mut stream, flush);
    match flush {
        DeflateFlush::Finish => assert!(rc2 == ReturnCode::StreamEnd && stream.avail_out == before),
        _ => assert!(rc2 == ReturnCode::BufError && stream.avail_out == before),
    }
    kani::cover!(has_dict && matches!(flush, DeflateFlush::Finish) && level == 9);
    kani::cover!(matches!(flush, DeflateFlush::PartialFlush));
    core::mem::forget(stream);
    core::mem::forget(state);
}

/// zlib wrapper under starved output: header, marker and trailer complete over several calls with 1..=3 bytes of
/// space each; every call returns Ok/StreamEnd (buffer-full is never fatal), output is the same byte sequence.
#[kani::proof]
#[kani::unwind(16)]
#[kani::stub(core::fmt::write, stub_fmt_write)]
#[kani::stub(core::panicking::panic_nounwind, stub_pn)]
#[kani::stub(core::panicking::panic_nounwind_fmt, stub_pnf)]
#[kani::stub(crate::deflate::algorithm::run, stub_run_consume_all)]
#[kani::stub(<[u16]>::fill, stub_fill_zero)]
fn kd7_zlib_starved_finish() {
    let mut w = [0u8; 2 << WB7];
    let mut p = [0u16; 1 << WB7];
    let mut h = [0u16; HASH_SIZE];
    let mut pe = [MaybeUninit::new(0u8); 4 * LB7];
    let mut sy = [0u8; 3 * LB7];
    let mut state = typed_state(&mut w, &mut p, &mut h, &mut pe, &mut sy, WB7, LB7, 6, 1, Strategy::Default);
    state.window_size = 2 << WB7;
    state.last_flush = -2;
    state.status = Status::Init;
    state.strstart = 5; // dictionary set: 6-byte header
    let mut stream = typed_stream(unsafe { &mut *(&mut state as *mut State) });
    let dictid: u32 = kani::any();
    stream.adler = dictid as _;
    let input = [7u8];
    let mut out = [0u8; 12];
    stream.next_in = input.as_ptr() as *mut u8;
    stream.avail_in = 1;
    stream.next_out = out.as_mut_ptr();
    let mut calls = 0;
    let mut done = false;
    // total output is 6 + 4 = 10 bytes.  With 1 byte of space per call: 6 calls drain the header (the 6th returns with
    // avail_out == 0 before compressing), call 7 compresses and writes the first trailer byte, calls 8-10 drain the
    // trailer (the 10th again returns with avail_out == 0), call 11 reports StreamEnd.
    while calls < 11 && !done {
        let space: u32 = kani::any();
        kani::assume(space >= 1 && space <= 3);
        let produced_so_far = stream.total_out as usize;
        kani::assume(produced_so_far + space as usize <= 12);
        stream.avail_out = space;
        let rc = deflate(&mut stream, DeflateFlush::Finish);
        assert!(rc == ReturnCode::Ok || rc == ReturnCode::StreamEnd, "buffer-full is never fatal");
        // progress: every call with room moves at least one byte until the end
        assert!(stream.total_out as usize > produced_so_far || rc == ReturnCode::StreamEnd);
        done = rc == ReturnCode::StreamEnd;
        calls += 1;
    }
    assert!(done, "Finish with fresh space reaches stream end after finitely many calls");
    assert!(stream.total_out == 10);
    assert!(u32::from_be_bytes([out[2], out[3], out[4], out[5]]) == dictid);
    assert!(out[6] == 0 && out[7] == 0 && out[8] == 0 && out[9] == 1, "trailer written exactly once");
    assert!(out[10] == 0 && out[11] == 0);
    kani::cover!(calls == 11);
    kani::cover!(calls == 4);
    core::mem::forget(stream);
    core::mem::forget(state);
}

// ---------------------------------------------------------------------------------------------------------------
// gzip wrapper: header fields supplied with deflateSetHeader are written exactly as RFC 1952 prescribes, however the
// output is chunked and although the pending buffer (16 bytes here) is smaller than the header (C20, C05).
// ---------------------------------------------------------------------------------------------------------------
const LBG: usize = 4; // pending = 16 bytes, smaller than a header with fields

fn gzip_header_instance(first_space: u32, has_extra: bool, has_name: bool, has_comment: bool) {
    let mut w = [0u8; 2 << WB7];
    let mut p = [0u16; 1 << WB7];
    let mut h = [0u16; HASH_SIZE];
    let mut pe = [MaybeUninit::new(0u8); 4 * LBG];
    let mut sy = [0u8; 3 * LBG];
    let level: i8 = kani::any();
    kani::assume(level >= 0 && level <= 9);
    let mut state = typed_state(&mut w, &mut p, &mut h, &mut pe, &mut sy, WB7, LBG, level, 2, Strategy::Default);
    state.window_size = 2 << WB7;
    state.last_flush = -2;
    state.status = Status::GZip;
    // header contents
    // extra up to 6 bytes and name up to 7 characters: either can be larger than what is left of the 16-byte pending
    // buffer after the 10 fixed header bytes, which is the path that resumes a field across calls
    let mut extra: [u8; 6] = kani::any();
    let mut name: [u8; 8] = kani::any();
    let mut comment: [u8; 3] = kani::any();
    name[7] = 0;
    comment[2] = 0;
    let mut gz = gz_header::default();
    gz.text = kani::any();
    gz.time = kani::any::<u32>() as _;
    gz.os = kani::any::<u8>() as i32;
    gz.hcrc = kani::any(); // any i32: zlib treats every non-zero value as "write a header CRC"
    let xlen: u32 = kani::any();
    kani::assume(xlen <= 6);
    if has_extra {
        gz.extra = extra.as_mut_ptr();
        gz.extra_len = xlen;
    }
    if has_name {
        gz.name = name.as_mut_ptr();
    }
    if has_comment {
        gz.comment = comment.as_mut_ptr();
    }
    state.gzhead = Some(unsafe { &mut *(&mut gz as *mut gz_header) });
    let mut stream = typed_stream(unsafe { &mut *(&mut state as *mut State) });
    stream.adler = 0;
    let input = [5u8, 6];
    let mut out = [0u8; 48];
    stream.next_in = input.as_ptr() as *mut u8;
    stream.avail_in = 2;
    stream.next_out = out.as_mut_ptr();
    // deflateBound for this stream, taken before compressing: its wrapper part must equal what deflate() really writes
    let b = bound(Some(&mut stream), 2);
    // the first call gets `first_space` bytes of room, the following ones 44 (enough for everything that is left)
    stream.avail_out = first_space;
    let mut rc = deflate(&mut stream, DeflateFlush::Finish);
    let mut calls = 1;
    while calls < 3 && rc == ReturnCode::Ok {
        stream.avail_out = 44;
        rc = deflate(&mut stream, DeflateFlush::Finish);
        calls += 1;
    }
    assert!(rc == ReturnCode::StreamEnd, "buffer-full is never fatal; Finish with fresh space reaches the end");
    let produced = stream.total_out as usize;
    // expected header, byte by byte (RFC 1952 2.3)
    let mut e = [0u8; 48];
    let mut n = 0;
    e[0] = 0x1f;
    e[1] = 0x8b;
    e[2] = 8;
    e[3] = (gz.text != 0) as u8 | ((gz.hcrc != 0) as u8) << 1 | (has_extra as u8) << 2 | (has_name as u8) << 3 | (has_comment as u8) << 4;
    let t = (gz.time as u32).to_le_bytes();
    e[4] = t[0];
    e[5] = t[1];
    e[6] = t[2];
    e[7] = t[3];
    e[8] = if level == 9 { 2 } else if level < 2 { 4 } else { 0 };
    e[9] = gz.os as u8;
    n = 10;
    if has_extra {
        e[n] = xlen as u8;
        e[n + 1] = 0;
        n += 2;
        let mut k = 0;
        while k < 6 {
            if (k as u32) < xlen {
                e[n] = extra[k];
                n += 1;
            }
            k += 1;
        }
    }
    if has_name {
        let mut k = 0;
        let mut done = false;
        while k < 8 {
            if !done {
                e[n] = name[k];
                n += 1;
                done = name[k] == 0;
            }
            k += 1;
        }
    }
    if has_comment {
        let mut k = 0;
        let mut done = false;
        while k < 3 {
            if !done {
                e[n] = comment[k];
                n += 1;
                done = comment[k] == 0;
            }
            k += 1;
        }
    }
    if gz.hcrc != 0 {
        let c = crate::crc32::crc32(0, &e[..n]);
        e[n] = c as u8;
        e[n + 1] = (c >> 8) as u8;
        n += 2;
    }
    // trailer: CRC-32 of no data (the stub emitted none; the folding state starts at 0) and ISIZE = 2
    assert!(produced == n + 8);
    // deflateBound's wrapper accounting (w_bits 9 != 15: conservative formula + wrap_len) matches the bytes really written
    let base = if level == 0 { 2 + 7 } else { 2 + ((2 + 7) >> 3) + ((2 + 63) >> 6) + 5 };
    assert!(b == base + produced, "deflateBound counts exactly the wrapper bytes deflate() writes for this header");
    let j: usize = kani::any();
    kani::assume(j < n);
    assert!(out[j] == e[j], "gzip header bytes");
    assert!(out[n] == 0 && out[n + 1] == 0 && out[n + 2] == 0 && out[n + 3] == 0, "CRC-32 of the empty data");
    assert!(out[n + 4] == 2 && out[n + 5] == 0 && out[n + 6] == 0 && out[n + 7] == 0, "ISIZE");
    kani::cover!(!has_extra || xlen == 6, "longest extra field");
    kani::cover!(!has_name || (name[0] != 0 && name[1] != 0 && name[2] != 0 && name[3] != 0 && name[4] != 0 && name[5] != 0 && name[6] != 0), "longest name");
    kani::cover!(gz.hcrc < 0, "negative hcrc still means: write the header CRC");
    core::mem::forget(stream);
    core::mem::forget(state);
}

macro_rules! gzip_header_harness {
    ($name:ident, $space:expr, $e:expr, $n:expr, $c:expr) => {
        #[kani::proof]
        #[kani::unwind(10)]
        #[kani::stub(core::fmt::write, stub_fmt_write)]
        #[kani::stub(core::panicking::panic_nounwind, stub_pn)]
        #[kani::stub(core::panicking::panic_nounwind_fmt, stub_pnf)]
        #[kani::stub(crate::deflate::algorithm::run, stub_run_consume_all)]
        #[kani::stub(<[u16]>::fill, stub_fill_zero)]
        #[kani::stub(crate::crc32::crc32, stub_crc_model)]
        #[kani::stub(core::ffi::CStr::from_ptr, stub_cstr_from_ptr)]
        fn $name() {
            gzip_header_instance($space, $e, $n, $c);
        }
    };
}
gzip_header_harness!(kd7_gzip_header_none_s1, 1, false, false, false);
gzip_header_harness!(kd7_gzip_header_extra_s1, 1, true, false, false);
gzip_header_harness!(kd7_gzip_header_extra_s13, 13, true, false, false);
gzip_header_harness!(kd7_gzip_header_name_s1, 1, false, true, false);
gzip_header_harness!(kd7_gzip_header_name_s11, 11, false, true, false);
gzip_header_harness!(kd7_gzip_header_all_s13, 13, true, true, true);

// ---------------------------------------------------------------------------------------------------------------
// flush_bytes (the routine that moves a gzip header field through a pending buffer that may be smaller than the
// field): unit harness.  Whatever the fill level of the pending buffer, the field length and the output room, the
// bytes that reach output + pending are the old pending bytes followed by a prefix of the field, and `gzindex`
// records exactly how much of the field has been taken so that the next call can resume (C20, C06).
// ---------------------------------------------------------------------------------------------------------------
#[kani::proof]
#[kani::unwind(12)]
#[kani::stub(core::fmt::write, stub_fmt_write)]
#[kani::stub(core::panicking::panic_nounwind, stub_pn)]
#[kani::stub(core::panicking::panic_nounwind_fmt, stub_pnf)]
#[kani::stub(crate::crc32::crc32, stub_crc_nondet)]
fn kd7_flush_bytes_unit() {
    const LBU: usize = 2; // pending = 8 bytes
    let mut w = [0u8; 2 << WB7];
    let mut p = [0u16; 1 << WB7];
    let mut h = [0u16; HASH_SIZE];
    let mut pe = [MaybeUninit::new(0u8); 4 * LBU];
    let mut sy = [0u8; 3 * LBU];
    let mut state = typed_state(&mut w, &mut p, &mut h, &mut pe, &mut sy, WB7, LBU, 6, 2, Strategy::Default);
    state.status = Status::Extra;
    let old: [u8; 8] = kani::any();
    let np: usize = kani::any();
    kani::assume(np <= 8);
    state.bit_writer.pending.extend(&old[..np]);
    let g0: usize = kani::any();
    kani::assume(g0 <= 100);
    state.gzindex = g0;
    let mut stream = typed_stream(unsafe { &mut *(&mut state as *mut State) });
    let field: [u8; 12] = kani::any();
    let fl: usize = kani::any();
    kani::assume(fl <= 12);
    let init: [u8; 24] = kani::any();
    let mut out = init;
    let room: u32 = kani::any();
    kani::assume(room <= 22);
    stream.next_out = out.as_mut_ptr();
    stream.avail_out = room;
    let r = flush_bytes(&mut stream, &field[..fl]);
    let produced = (room - stream.avail_out) as usize;
    let pend = stream.state.bit_writer.pending.pending();
    let in_pending = pend.len();
    let moved = produced + in_pending; // bytes now in output or pending
    assert!(moved >= np && moved - np <= fl);
    let taken = moved - np; // how much of the field has been taken
    // the byte at stream position j (output first, then pending)
    let j: usize = kani::any();
    kani::assume(j < moved);
    let got = if j < produced { out[j] } else { pend[j - produced] };
    let want = if j < np { old[j] } else { field[j - np] };
    assert!(got == want, "old pending bytes, then the field, in order, nothing repeated or dropped");
    let k: usize = kani::any();
    kani::assume(k >= produced && k < 24);
    assert!(out[k] == init[k]);
    match r {
        ControlFlow::Continue(()) => {
            assert!(taken == fl && stream.state.gzindex == 0);
        }
        ControlFlow::Break(rc) => {
            // output is full with bytes still pending: resume later from exactly where we stopped
            assert!(rc == ReturnCode::Ok && stream.avail_out == 0 && in_pending > 0);
            assert!(stream.state.last_flush == -1);
            assert!(stream.state.gzindex == g0 + taken, "gzindex records how much of the field was taken");
        }
    }
    kani::cover!(matches!(r, ControlFlow::Break(_)) && taken > 0);
    kani::cover!(matches!(r, ControlFlow::Continue(())) && fl == 12 && produced > 8);
    core::mem::forget(stream);
    core::mem::forget(state);
}

/// A gzip header field whose emission was interrupted (pending buffer full, output full) is resumed from `gzindex`,
/// not from its beginning: extra, name and comment.
fn gzip_resume_instance(which: u8) {
    const LBR: usize = 8; // pending = 32 bytes: ample here
    let mut w = [0u8; 2 << WB7];
    let mut p = [0u16; 1 << WB7];
    let mut h = [0u16; HASH_SIZE];
    let mut pe = [MaybeUninit::new(0u8); 4 * LBR];
    let mut sy = [0u8; 3 * LBR];
    let mut state = typed_state(&mut w, &mut p, &mut h, &mut pe, &mut sy, WB7, LBR, 6, 2, Strategy::Default);
    state.window_size = 2 << WB7;
    state.last_flush = -1;
    let mut f: [u8; 6] = kani::any();
    kani::assume(f[0] != 0 && f[1] != 0 && f[2] != 0 && f[3] != 0 && f[4] != 0);
    f[5] = 0;
    let mut gz = gz_header::default();
    let k: usize = kani::any(); // bytes of the field already emitted by earlier calls
    let flen = if which == 0 { 5 } else { 6 }; // extra: 5 bytes; strings: 5 chars + NUL
    kani::assume(k < flen);
    match which {
        0 => {
            gz.extra = f.as_mut_ptr();
            gz.extra_len = 5;
            state.status = Status::Extra;
        }
        1 => {
            gz.name = f.as_mut_ptr();
            state.status = Status::Name;
        }
        _ => {
            gz.comment = f.as_mut_ptr();
            state.status = Status::Comment;
        }
    }
    state.gzindex = k;
    state.gzhead = Some(unsafe { &mut *(&mut gz as *mut gz_header) });
    let mut stream = typed_stream(unsafe { &mut *(&mut state as *mut State) });
    let input = [9u8];
    let mut out = [0u8; 24];
    stream.next_in = input.as_ptr() as *mut u8;
    stream.avail_in = 1;
    stream.next_out = out.as_mut_ptr();
    stream.avail_out = 24;
    let rc = deflate(&mut stream, DeflateFlush::Finish);
    assert!(rc == ReturnCode::StreamEnd);
    let produced = 24 - stream.avail_out as usize;
    // the rest of the field, then the trailer (CRC-32 of no data, ISIZE = 1)
    assert!(produced == (flen - k) + 8, "only the part of the field that was still outstanding is written");
    let j: usize = kani::any();
    kani::assume(j < flen - k);
    assert!(out[j] == f[k + j]);
    kani::cover!(k == 3);
    kani::cover!(k == 0);
    core::mem::forget(stream);
    core::mem::forget(state);
}

macro_rules! gzip_resume_harness {
    ($name:ident, $which:expr) => {
        #[kani::proof]
        #[kani::unwind(12)]
        #[kani::stub(core::fmt::write, stub_fmt_write)]
        #[kani::stub(core::panicking::panic_nounwind, stub_pn)]
        #[kani::stub(core::panicking::panic_nounwind_fmt, stub_pnf)]
        #[kani::stub(crate::deflate::algorithm::run, stub_run_consume_all)]
        #[kani::stub(<[u16]>::fill, stub_fill_zero)]
        #[kani::stub(crate::crc32::crc32, stub_crc_nondet)]
        #[kani::stub(core::ffi::CStr::from_ptr, stub_cstr_from_ptr)]
        fn $name() {
            gzip_resume_instance($which);
        }
    };
}
gzip_resume_harness!(kd7_gzip_resume_extra, 0);
gzip_resume_harness!(kd7_gzip_resume_name, 1);
gzip_resume_harness!(kd7_gzip_resume_comment, 2);

/// A new gzip member starts its header fields from their beginning whatever `gzindex` a previous, abandoned member left
/// behind (deflateReset in the middle of a long name does not clear it: the header writer must) — C14 "reset == fresh".
#[kani::proof]
#[kani::unwind(12)]
#[kani::stub(core::fmt::write, stub_fmt_write)]
#[kani::stub(core::panicking::panic_nounwind, stub_pn)]
#[kani::stub(core::panicking::panic_nounwind_fmt, stub_pnf)]
#[kani::stub(crate::deflate::algorithm::run, stub_run_consume_all)]
#[kani::stub(<[u16]>::fill, stub_fill_zero)]
#[kani::stub(crate::crc32::crc32, stub_crc_nondet)]
#[kani::stub(core::ffi::CStr::from_ptr, stub_cstr_from_ptr)]
fn kd7_gzip_start_stale_gzindex() {
    const LBR: usize = 8;
    let mut w = [0u8; 2 << WB7];
    let mut p = [0u16; 1 << WB7];
    let mut h = [0u16; HASH_SIZE];
    let mut pe = [MaybeUninit::new(0u8); 4 * LBR];
    let mut sy = [0u8; 3 * LBR];
    let mut state = typed_state(&mut w, &mut p, &mut h, &mut pe, &mut sy, WB7, LBR, 6, 2, Strategy::Default);
    state.window_size = 2 << WB7;
    state.last_flush = -2;
    state.status = Status::GZip; // as after deflateInit2 / deflateReset
    let stale: usize = kani::any();
    kani::assume(stale <= 3);
    state.gzindex = stale;
    let mut name: [u8; 4] = kani::any();
    kani::assume(name[0] != 0 && name[1] != 0 && name[2] != 0);
    name[3] = 0;
    let mut gz = gz_header::default();
    let which: bool = kani::any();
    if which {
        gz.name = name.as_mut_ptr();
    } else {
        gz.comment = name.as_mut_ptr();
    }
    state.gzhead = Some(unsafe { &mut *(&mut gz as *mut gz_header) });
    let mut stream = typed_stream(unsafe { &mut *(&mut state as *mut State) });
    let input = [9u8];
    let mut out = [0u8; 32];
    stream.next_in = input.as_ptr() as *mut u8;
    stream.avail_in = 1;
    stream.next_out = out.as_mut_ptr();
    stream.avail_out = 32;
    let rc = deflate(&mut stream, DeflateFlush::Finish);
    assert!(rc == ReturnCode::StreamEnd);
    let produced = 32 - stream.avail_out as usize;
    assert!(produced == 10 + 4 + 8, "fixed header, the whole string with its terminator, trailer");
    assert!(out[0] == 0x1f && out[1] == 0x8b && out[2] == 8 && out[3] == if which { 8 } else { 16 });
    assert!(out[10] == name[0] && out[11] == name[1] && out[12] == name[2] && out[13] == 0);
    kani::cover!(stale == 2 && which);
    kani::cover!(stale == 0 && !which);
    core::mem::forget(stream);
    core::mem::forget(state);
}

/// contract stub for `algorithm::run` with two behaviours chosen by the space it is given: with exactly one byte of output
/// space the block it writes does not fit — it takes all input, uses up the space, leaves nothing pending and reports
/// NeedMore (the situation zlib.h describes as "call again with the same flush and more output space"); with more space it
/// completes according to `flush`.
pub(crate) fn stub_run_starved_then_done(stream: &mut DeflateStream, flush: DeflateFlush) -> BlockState {
    stream.total_in += stream.avail_in as crate::c_api::z_size;
    stream.next_in = stream.next_in.wrapping_add(stream.avail_in as usize);
    stream.avail_in = 0;
    if stream.avail_out == 1 {
        unsafe { *stream.next_out = 0x55 };
        stream.next_out = stream.next_out.wrapping_add(1);
        stream.avail_out = 0;
        stream.total_out += 1;
        stream.state.lookahead = 1; // data still buffered, not yet emitted
        return BlockState::NeedMore;
    }
    stream.state.lookahead = 0;
    match flush {
        DeflateFlush::Finish => BlockState::FinishDone,
        DeflateFlush::NoFlush => BlockState::NeedMore,
        _ => BlockState::BlockDone,
    }
}

fn any_flush_but_none() -> DeflateFlush {
    let fsel: u8 = kani::any();
    kani::assume(fsel < 5);
    match fsel {
        0 => DeflateFlush::Finish,
        1 => DeflateFlush::SyncFlush,
        2 => DeflateFlush::FullFlush,
        3 => DeflateFlush::PartialFlush,
        _ => DeflateFlush::Block,
    }
}

/// A flush that ran out of output space inside the compress function is completed by the next call with the same flush value
/// and no new input — whatever flush the call before it used (C11 "flushes starved of output and completed by later calls",
/// C06 "a buffer-full status is never fatal").
#[kani::proof]
#[kani::unwind(10)]
#[kani::stub(core::fmt::write, stub_fmt_write)]
#[kani::stub(core::panicking::panic_nounwind, stub_pn)]
#[kani::stub(core::panicking::panic_nounwind_fmt, stub_pnf)]
#[kani::stub(crate::deflate::algorithm::run, stub_run_starved_then_done)]
#[kani::stub(<[u16]>::fill, stub_fill_zero)]
fn kd7_starved_flush_is_completed_by_the_next_call() {
    let mut w = [0u8; 2 << WB7];
    let mut p = [0u16; 1 << WB7];
    let mut h = [0u16; HASH_SIZE];
    let mut pe = [MaybeUninit::new(0u8); 4 * LB7];
    let mut sy = [0u8; 3 * LB7];
    let mut state = typed_state(&mut w, &mut p, &mut h, &mut pe, &mut sy, WB7, LB7, 6, 0, Strategy::Default);
    state.window_size = 2 << WB7;
    state.status = Status::Busy;
    // the previous, completed call used any flush value (or this is the first call: -2; or the "avoid BUF_ERROR" mark: -1)
    let prev: i8 = kani::any();
    kani::assume(prev >= -2 && prev <= 5 && prev != 4);
    state.last_flush = prev;
    let mut stream = typed_stream(unsafe { &mut *(&mut state as *mut State) });
    let flush = any_flush_but_none();
    let input = [1u8, 2, 3];
    let mut out = [0u8; 16];
    stream.next_in = input.as_ptr() as *mut u8;
    stream.avail_in = 3;
    stream.next_out = out.as_mut_ptr();
    stream.avail_out = 1;
    let rc1 = deflate(&mut stream, flush);
    assert!(rc1 == ReturnCode::Ok && stream.avail_out == 0 && stream.avail_in == 0);
    // the continuation zlib.h asks for: same flush, more output space, no new input
    stream.avail_out = 15;
    let rc2 = deflate(&mut stream, flush);
    assert!(rc2 != ReturnCode::BufError, "the continuation of a starved flush is not refused");
    let produced = 15 - stream.avail_out as usize;
    match flush {
        DeflateFlush::Finish => assert!(rc2 == ReturnCode::StreamEnd),
        DeflateFlush::SyncFlush | DeflateFlush::FullFlush => {
            assert!(rc2 == ReturnCode::Ok && produced == 5);
            assert!(out[1] == 0 && out[2] == 0 && out[3] == 0 && out[4] == 0xff && out[5] == 0xff, "marker after the block");
        }
        _ => assert!(rc2 == ReturnCode::Ok),
    }
    kani::cover!(prev == 2 && matches!(flush, DeflateFlush::SyncFlush));
    kani::cover!(prev == -2 && matches!(flush, DeflateFlush::Finish));
    core::mem::forget(stream);
    core::mem::forget(state);
}

/// zlib.h: "If deflate returns with avail_out == 0, this function must be called again with the same value of the flush
/// parameter and more output space until the flush is complete (deflate returns with non-zero avail_out)."  A flush whose
/// output fills the buffer exactly (nothing left pending) is such a return: the repeated call is served (another marker),
/// not refused as a duplicate; a flush that left room is complete and its repetition without new input is refused (C16, C15).
#[kani::proof]
#[kani::unwind(10)]
#[kani::stub(core::fmt::write, stub_fmt_write)]
#[kani::stub(core::panicking::panic_nounwind, stub_pn)]
#[kani::stub(core::panicking::panic_nounwind_fmt, stub_pnf)]
#[kani::stub(crate::deflate::algorithm::run, stub_run_starved_then_done)]
#[kani::stub(<[u16]>::fill, stub_fill_zero)]
fn kd7_flush_that_fills_the_buffer_is_repeated() {
    let mut w = [0u8; 2 << WB7];
    let mut p = [0u16; 1 << WB7];
    let mut h = [0u16; HASH_SIZE];
    let mut pe = [MaybeUninit::new(0u8); 4 * LB7];
    let mut sy = [0u8; 3 * LB7];
    let mut state = typed_state(&mut w, &mut p, &mut h, &mut pe, &mut sy, WB7, LB7, 6, 0, Strategy::Default);
    state.window_size = 2 << WB7;
    state.status = Status::Busy;
    state.last_flush = 0;
    let mut stream = typed_stream(unsafe { &mut *(&mut state as *mut State) });
    let flush = match kani::any::<u8>() % 2 {
        0 => DeflateFlush::SyncFlush,
        _ => DeflateFlush::FullFlush,
    };
    let input = [1u8, 2, 3];
    let mut out = [0u8; 24];
    stream.next_in = input.as_ptr() as *mut u8;
    stream.avail_in = 3;
    stream.next_out = out.as_mut_ptr();
    // the block function (stub) completes the block without output of its own; the marker is 5 bytes
    let space: u32 = kani::any();
    kani::assume(space >= 2 && space <= 8);
    stream.avail_out = space;
    let rc1 = deflate(&mut stream, flush);
    assert!(rc1 == ReturnCode::Ok && stream.avail_in == 0);
    let produced1 = (space - stream.avail_out) as usize;
    assert!(produced1 == Ord::min(space as usize, 5));
    let filled = stream.avail_out == 0;
    stream.avail_out = 12;
    let rc2 = deflate(&mut stream, flush);
    let produced2 = 12 - stream.avail_out as usize;
    if filled {
        assert!(rc2 == ReturnCode::Ok, "the buffer was full: the same flush again is the documented continuation");
        if space == 5 {
            assert!(produced2 == 5, "nothing was pending: the repeated flush writes another marker");
        } else {
            assert!(produced2 >= 5 - produced1, "the rest of the first marker comes out");
        }
    } else {
        assert!(rc2 == ReturnCode::BufError && produced2 == 0, "the flush was complete: repeating it without input is refused");
    }
    kani::cover!(space == 5 && rc2 == ReturnCode::Ok);
    kani::cover!(space == 3 && rc2 == ReturnCode::Ok);
    kani::cover!(rc2 == ReturnCode::BufError);
    core::mem::forget(stream);
    core::mem::forget(state);
}

/// A call refused because there is no output space changes nothing: the same call with space then does what it would have
/// done in the first place (C06 "a buffer-full status is never fatal").
#[kani::proof]
#[kani::unwind(10)]
#[kani::stub(core::fmt::write, stub_fmt_write)]
#[kani::stub(core::panicking::panic_nounwind, stub_pn)]
#[kani::stub(core::panicking::panic_nounwind_fmt, stub_pnf)]
#[kani::stub(crate::deflate::algorithm::run, stub_run_starved_then_done)]
#[kani::stub(<[u16]>::fill, stub_fill_zero)]
fn kd7_refused_call_without_space_is_harmless() {
    let mut w = [0u8; 2 << WB7];
    let mut p = [0u16; 1 << WB7];
    let mut h = [0u16; HASH_SIZE];
    let mut pe = [MaybeUninit::new(0u8); 4 * LB7];
    let mut sy = [0u8; 3 * LB7];
    let mut state = typed_state(&mut w, &mut p, &mut h, &mut pe, &mut sy, WB7, LB7, 6, 0, Strategy::Default);
    state.window_size = 2 << WB7;
    state.status = Status::Busy;
    state.lookahead = 1; // input already taken into the window, not yet emitted
    let prev: i8 = kani::any();
    kani::assume(prev >= -2 && prev <= 5 && prev != 4);
    state.last_flush = prev;
    let mut stream = typed_stream(unsafe { &mut *(&mut state as *mut State) });
    let flush = any_flush_but_none();
    // a direct call would not be a duplicate flush
    kani::assume(matches!(flush, DeflateFlush::Finish) || rank_flush(flush as i8) > rank_flush(prev));
    let mut out = [0u8; 16];
    let input = [0u8; 1];
    stream.next_in = input.as_ptr() as *mut u8;
    stream.avail_in = 0;
    stream.next_out = out.as_mut_ptr();
    stream.avail_out = 0;
    let rc1 = deflate(&mut stream, flush);
    assert!(rc1 == ReturnCode::BufError, "no output space: documented status");
    stream.avail_out = 16;
    let rc2 = deflate(&mut stream, flush);
    assert!(rc2 != ReturnCode::BufError, "the retry with output space goes through");
    kani::cover!(prev == 0 && matches!(flush, DeflateFlush::SyncFlush));
    core::mem::forget(stream);
    core::mem::forget(state);
}

/// The two header-CRC bytes of a gzip header are written exactly once and are the CRC-32 (low 16 bits) of the header bytes
/// before them, however full the pending buffer is when the Hcrc state is reached and however little output space the caller
/// gives (C20 "however small the output chunks are"; C06 progress).  The header's last field is a name of NAME_LEN bytes
/// (terminator included) written into an empty 32-byte pending buffer in the same call, so that 32 - NAME_LEN bytes of room
/// are left for the CRC; the first call gets `a1` bytes of output space, the second ample space (all concrete: R11).
fn gzip_hcrc_instance<const NAME_LEN: usize>(a1: u32) {
    const LBR: usize = 8; // pending buffer = 32 bytes
    let mut w = [0u8; 2 << WB7];
    let mut p = [0u16; 1 << WB7];
    let mut h = [0u16; HASH_SIZE];
    let mut pe = [MaybeUninit::new(0u8); 4 * LBR];
    let mut sy = [0u8; 3 * LBR];
    let mut state = typed_state(&mut w, &mut p, &mut h, &mut pe, &mut sy, WB7, LBR, 6, 2, Strategy::Default);
    state.window_size = 2 << WB7;
    state.last_flush = -1;
    state.status = Status::Name;
    state.gzindex = 0;
    let mut name = [b'n'; NAME_LEN];
    name[NAME_LEN - 1] = 0;
    let mut gz = gz_header::default();
    gz.hcrc = 1;
    gz.name = name.as_mut_ptr();
    state.gzhead = Some(unsafe { &mut *(&mut gz as *mut gz_header) });
    let mut stream = typed_stream(unsafe { &mut *(&mut state as *mut State) });
    let crc0: u32 = kani::any(); // CRC of the header bytes written before the name
    stream.adler = crc0 as _;
    let input = [9u8];
    let mut out = [0u8; 64];
    stream.next_in = input.as_ptr() as *mut u8;
    stream.avail_in = 1;
    stream.next_out = out.as_mut_ptr();
    stream.avail_out = a1;
    let rc1 = deflate(&mut stream, DeflateFlush::Finish);
    assert!(matches!(rc1, ReturnCode::Ok | ReturnCode::StreamEnd));
    let produced1 = (a1 - stream.avail_out) as usize;
    let mut produced = produced1;
    if rc1 != ReturnCode::StreamEnd {
        stream.avail_out = 64 - produced1 as u32;
        let rc2 = deflate(&mut stream, DeflateFlush::Finish);
        assert!(rc2 == ReturnCode::StreamEnd, "ample space: the stream completes");
        produced = 64 - stream.avail_out as usize;
    }
    assert!(produced == NAME_LEN + 2 + 8, "name, two CRC bytes, trailer");
    assert!(out[NAME_LEN - 2] == b'n' && out[NAME_LEN - 1] == 0);
    let want = crate::crc32::crc32(crc0, &name); // the model under CBMC, the real CRC-32 under replay
    assert!(out[NAME_LEN] == want as u8 && out[NAME_LEN + 1] == (want >> 8) as u8, "CRC16 of the header bytes before it, little endian, once");
    kani::cover!(crc0 == 0x1234_5678);
    core::mem::forget(stream);
    core::mem::forget(state);
}

macro_rules! gzip_hcrc_harness {
    ($name:ident, $nl:expr, $a1:expr) => {
        #[kani::proof]
        #[kani::unwind(36)]
        #[kani::stub(core::fmt::write, stub_fmt_write)]
        #[kani::stub(core::panicking::panic_nounwind, stub_pn)]
        #[kani::stub(core::panicking::panic_nounwind_fmt, stub_pnf)]
        #[kani::stub(crate::deflate::algorithm::run, stub_run_consume_all)]
        #[kani::stub(<[u16]>::fill, stub_fill_zero)]
        #[kani::stub(crate::crc32::crc32, stub_crc_model)]
        #[kani::stub(core::ffi::CStr::from_ptr, stub_cstr_from_ptr)]
        fn $name() {
            gzip_hcrc_instance::<$nl>($a1);
        }
    };
}
gzip_hcrc_harness!(kd7_gzip_hcrc_room0_out1, 32, 1);
gzip_hcrc_harness!(kd7_gzip_hcrc_room1_out1, 31, 1);
gzip_hcrc_harness!(kd7_gzip_hcrc_room1_out40, 31, 40);
gzip_hcrc_harness!(kd7_gzip_hcrc_room2_out1, 30, 1);
gzip_hcrc_harness!(kd7_gzip_hcrc_room3_out40, 29, 40);

// ---------------------------------------------------------------------------------------------------------------
// a finished stream (final block and trailer written): deflatePrime is still accepted and leaves bits in the bit
// register and whole bytes in the pending buffer; deflate(Z_FINISH) afterwards never aborts, hands the whole bytes out
// and reports StreamEnd as soon as nothing is pending (C16/C06: "never terminates the process").
// ---------------------------------------------------------------------------------------------------------------
#[kani::proof]
#[kani::unwind(10)]
#[kani::stub(core::fmt::write, stub_fmt_write)]
#[kani::stub(core::panicking::panic_nounwind, stub_pn)]
#[kani::stub(core::panicking::panic_nounwind_fmt, stub_pnf)]
#[kani::stub(crate::deflate::algorithm::run, stub_run_consume_all)]
#[kani::stub(<[u16]>::fill, stub_fill_zero)]
fn kd7_finish_after_prime_on_a_finished_stream() {
    let mut w = [0u8; 2 << WB7];
    let mut p = [0u16; 1 << WB7];
    let mut h = [0u16; HASH_SIZE];
    let mut pe = [MaybeUninit::new(0u8); 4 * LB7];
    let mut sy = [0u8; 3 * LB7];
    let wrap: i8 = match kani::any::<u8>() % 3 {
        0 => 0,  // raw stream
        1 => -1, // zlib stream whose trailer has been written
        _ => -2, // gzip stream whose trailer has been written
    };
    let mut state = typed_state(&mut w, &mut p, &mut h, &mut pe, &mut sy, WB7, LB7, 6, wrap, Strategy::Default);
    state.window_size = 2 << WB7;
    state.status = Status::Finish;
    state.last_flush = 4; // Z_FINISH
    state.strstart = 5;
    state.block_start = 5;
    let mut stream = typed_stream(unsafe { &mut *(&mut state as *mut State) });
    let mut out = [0u8; 12];
    stream.next_out = out.as_mut_ptr();
    stream.avail_out = 0;
    stream.total_out = 20;
    let bits: i32 = kani::any();
    let value: i32 = kani::any();
    kani::assume(bits >= 0 && bits <= 32);
    let rc = prime(&mut stream, bits, value);
    assert!(rc == ReturnCode::Ok);
    let whole = (bits / 8) as usize;
    assert!(stream.state.bit_writer.pending.pending().len() == whole && stream.state.bit_writer.bits_valid as i32 == bits % 8);
    let space: u32 = kani::any();
    kani::assume(space <= 6);
    stream.avail_out = space;
    let rc = deflate(&mut stream, DeflateFlush::Finish);
    if space == 0 {
        assert!(rc == ReturnCode::BufError);
    } else if (space as usize) < whole || (space as usize == whole && whole > 0) {
        assert!(rc == ReturnCode::Ok, "output still pending (or the buffer is exactly full)");
    } else {
        assert!(rc == ReturnCode::StreamEnd, "nothing pending: the stream is (still) at its end, whatever the bit register holds");
    }
    let produced = (stream.total_out - 20) as usize;
    assert!(produced == Ord::min(space as usize, whole) && stream.avail_out as usize == space as usize - produced);
    let i: usize = kani::any();
    kani::assume(i < 4);
    if i < produced {
        assert!(out[i] == (value as u32 >> (8 * i)) as u8, "the primed whole bytes reach the output in order");
    }
    assert!(out[produced] == 0);
    kani::cover!(bits % 8 != 0 && rc == ReturnCode::StreamEnd);
    kani::cover!(rc == ReturnCode::Ok);
    core::mem::forget(stream);
    core::mem::forget(state);
}
