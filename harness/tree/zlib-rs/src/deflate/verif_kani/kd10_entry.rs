//! KD10 — small entry points on a typed state: reset == fresh init, params/tune/set_header/pending validation,
//! copy failure, set_dictionary/get_dictionary (C06, C13, C14, C16, C18, C10).
use super::*;

const WB: usize = 9;
const LB: usize = 16;

/// Reset == fresh: every scalar of a typed state is made arbitrary ("whatever it processed before"), then
/// `reset()` must give the same value to every field as `reset()` on the state `init()` constructs.
#[kani::proof]
#[kani::unwind(290)] // init_block clears 286 + 30 + 19 frequencies; no data-dependent loop in this harness
#[kani::stub(core::fmt::write, stub_fmt_write)]
#[kani::stub(core::panicking::panic_nounwind, stub_pn)]
#[kani::stub(core::panicking::panic_nounwind_fmt, stub_pnf)]
#[kani::stub(<[u16]>::fill, stub_fill_zero)]
#[kani::stub(<[u8]>::fill, stub_fill_zero)]
fn kd10_reset_equals_fresh() {
    let level: i8 = kani::any();
    kani::assume(level >= 0 && level <= 9);
    let wrap0: i8 = kani::any();
    kani::assume(wrap0 >= 0 && wrap0 <= 2);
    let mut wa = [0u8; 2 << WB];
    let mut pa = [0u16; 1 << WB];
    let mut ha = [0u16; HASH_SIZE];
    let mut pea = [MaybeUninit::new(0u8); 4 * LB];
    let mut sya = [0u8; 3 * LB];
    let mut wb = [0u8; 2 << WB];
    let mut pb = [0u16; 1 << WB];
    let mut hb = [0u16; HASH_SIZE];
    let mut peb = [MaybeUninit::new(0u8); 4 * LB];
    let mut syb = [0u8; 3 * LB];
    // stale hash-table contents from the previous stream, anywhere in the 65536-entry table
    let dirty: usize = kani::any();
    kani::assume(dirty < HASH_SIZE);
    ha[dirty] = 0x1234;
    // ... and stale window bytes and hash-chain links (the match finders read a few bytes past the valid data and
    // longest_match_slow follows links of positions that were never inserted: a fresh stream has zeros there)
    let dirty_w: usize = kani::any();
    kani::assume(dirty_w < (2 << WB));
    wa[dirty_w] = 0x5a;
    let dirty_p: usize = kani::any();
    kani::assume(dirty_p < (1 << WB));
    pa[dirty_p] = 0x4321;
    let mut a = typed_state(&mut wa, &mut pa, &mut ha, &mut pea, &mut sya, WB, LB, level, wrap0, Strategy::Default);
    let mut b = typed_state(&mut wb, &mut pb, &mut hb, &mut peb, &mut syb, WB, LB, level, wrap0, Strategy::Default);
    // dirty every scalar of `a` (a finished stream has wrap negated)
    a.wrap = if kani::any() { wrap0 } else { -wrap0 };
    a.status = match kani::any::<u8>() % 8 {
        0 => Status::Init,
        1 => Status::GZip,
        2 => Status::Extra,
        3 => Status::Name,
        4 => Status::Comment,
        5 => Status::Hcrc,
        6 => Status::Busy,
        _ => Status::Finish,
    };
    a.last_flush = kani::any();
    a.strstart = kani::any();
    a.block_start = kani::any();
    a.block_open = kani::any();
    a.window_size = kani::any();
    a.insert = kani::any();
    a.matches = kani::any();
    a.opt_len = kani::any();
    a.static_len = kani::any();
    a.lookahead = kani::any();
    a.ins_h = kani::any();
    a.match_start = kani::any();
    a.prev_match = kani::any();
    a.match_available = kani::any();
    a.prev_length = kani::any();
    a.gzindex = kani::any();
    a.bit_writer.bit_buffer = kani::any();
    a.bit_writer.bits_valid = kani::any();
    a.bit_writer.bits_used = kani::any();
    a.max_chain_length = kani::any();
    a.max_lazy_match = kani::any();
    a.good_match = kani::any();
    a.nice_match = kani::any();
    // a partially drained pending buffer: 3 bytes queued, 1 or 2 of them already handed to the caller (read cursor != 0)
    a.bit_writer.pending.extend(&[1, 2, 3]);
    a.bit_writer.pending.advance(if kani::any() { 1 } else { 2 });
    let mut sa = typed_stream(unsafe { &mut *(&mut a as *mut State) });
    let mut sb = typed_stream(unsafe { &mut *(&mut b as *mut State) });
    sa.total_in = kani::any();
    sa.total_out = kani::any();
    sa.adler = kani::any();
    sa.data_type = kani::any();
    assert!(reset(&mut sa) == ReturnCode::Ok);
    assert!(reset(&mut sb) == ReturnCode::Ok);
    assert!(sa.total_in == sb.total_in && sa.total_out == sb.total_out && sa.adler == sb.adler && sa.data_type == sb.data_type);
    assert!(sa.msg.is_null());
    let (x, y) = (&sa.state, &sb.state);
    assert!(x.status == y.status, "status");
    assert!(x.wrap == y.wrap && x.last_flush == y.last_flush, "wrap/last_flush");
    assert!(x.strstart == y.strstart && x.block_start == y.block_start && x.lookahead == y.lookahead && x.insert == y.insert, "positions");
    assert!(x.window_size == y.window_size && x.matches == y.matches && x.opt_len == y.opt_len && x.static_len == y.static_len, "block accounting");
    assert!(x.match_start == y.match_start && x.match_available == y.match_available && x.prev_length == y.prev_length && x.ins_h == y.ins_h, "match state");
    assert!(x.bit_writer.bit_buffer == y.bit_writer.bit_buffer && x.bit_writer.bits_valid == y.bit_writer.bits_valid && x.bit_writer.bits_used == y.bit_writer.bits_used, "bit writer");
    assert!(x.max_chain_length == y.max_chain_length && x.max_lazy_match == y.max_lazy_match && x.good_match == y.good_match && x.nice_match == y.nice_match, "tuning");
    assert!(x.bit_writer.pending.pending == y.bit_writer.pending.pending, "pending output discarded");
    assert!(x.bit_writer.pending.remaining() == y.bit_writer.pending.remaining(), "the whole pending buffer is available again");
    assert!(x.block_open == y.block_open, "block_open survives reset");
    assert!(x.level == y.level && x.strategy == y.strategy && x.w_size == y.w_size && x.lit_bufsize == y.lit_bufsize);
    assert!(x.sym_buf.is_empty() && y.sym_buf.is_empty());
    let i: usize = kani::any();
    kani::assume(i < HASH_SIZE);
    assert!(x.head.as_slice()[i] == 0, "the whole hash table is cleared, whatever the window size");
    assert!(x.head.as_slice()[dirty] == 0);
    assert!(x.window.filled()[dirty_w] == y.window.filled()[dirty_w], "no byte of the previous stream is left where the match finders can read it");
    assert!(x.prev.as_slice()[dirty_p] == y.prev.as_slice()[dirty_p], "no hash-chain link of the previous stream is left");
    let k: usize = kani::any();
    kani::assume(k < L_CODES);
    assert!(x.l_desc.dyn_tree[k].freq() == y.l_desc.dyn_tree[k].freq());
    kani::cover!(wrap0 == 2 && level == 1);
    core::mem::forget(sa);
    core::mem::forget(sb);
    core::mem::forget(a);
    core::mem::forget(b);
}

unsafe extern "C" fn za_fail_counted(o: *mut core::ffi::c_void, _i: u32, _s: u32) -> *mut core::ffi::c_void {
    unsafe { *(o as *mut u32) += 1 };
    core::ptr::null_mut()
}
unsafe extern "C" fn zf_counted(o: *mut core::ffi::c_void, _p: *mut core::ffi::c_void) {
    unsafe { *(o as *mut u32) += 0x100 };
}

/// deflateCopy with a failing allocator: MemError, no free, and the destination must not share the source's state
/// (ending it must not release the source's allocation).
#[kani::proof]
#[kani::unwind(8)]
#[kani::stub(core::fmt::write, stub_fmt_write)]
#[kani::stub(core::panicking::panic_nounwind, stub_pn)]
#[kani::stub(core::panicking::panic_nounwind_fmt, stub_pnf)]
fn ka2_deflate_copy_alloc_failure() {
    let mut w = [0u8; 2 << WB];
    let mut p = [0u16; 1 << WB];
    let mut h = [0u16; HASH_SIZE];
    let mut pe = [MaybeUninit::new(0u8); 4 * LB];
    let mut sy = [0u8; 3 * LB];
    let mut state = typed_state(&mut w, &mut p, &mut h, &mut pe, &mut sy, WB, LB, 6, 1, Strategy::Default);
    state.window_size = 2 << WB;
    let src_state_ptr = &mut state as *mut State as usize;
    let mut counter: u32 = 0;
    let mut stream = typed_stream(unsafe { &mut *(&mut state as *mut State) });
    stream.alloc = Allocator {
        zalloc: za_fail_counted,
        zfree: zf_counted,
        opaque: &mut counter as *mut u32 as *mut core::ffi::c_void,
        _marker: PhantomData,
    };
    let mut dest = MaybeUninit::<DeflateStream>::zeroed();
    let rc = copy(&mut dest, &mut stream);
    assert!(rc == ReturnCode::MemError);
    assert!(counter == 1, "exactly one allocation request, nothing freed");
    let dest_state = unsafe { *(core::ptr::addr_of!((*dest.as_ptr()).state) as *const usize) };
    assert!(dest_state != src_state_ptr, "failed copy leaves dest.state aliasing the source state");
    assert!(dest_state == 0, "dest is left End-safe: no state");
    // the source is untouched
    assert!(stream.state as *mut State as usize == src_state_ptr);
    core::mem::forget(stream);
    core::mem::forget(state);
}

/// params(): argument validation, "no change => no flush", and the level/strategy installed afterwards.
fn stub_deflate_ok(stream: &mut DeflateStream, _flush: DeflateFlush) -> ReturnCode {
    // contract: a Block flush with output space consumes all input
    stream.avail_in = 0;
    stream.state.block_start = stream.state.strstart as isize;
    stream.state.lookahead = 0;
    ReturnCode::Ok
}

#[kani::proof]
#[kani::unwind(12)]
#[kani::stub(core::fmt::write, stub_fmt_write)]
#[kani::stub(core::panicking::panic_nounwind, stub_pn)]
#[kani::stub(core::panicking::panic_nounwind_fmt, stub_pnf)]
#[kani::stub(<[u16]>::fill, stub_fill_zero)]
#[kani::stub(crate::deflate::deflate, stub_deflate_ok)]
#[kani::stub(crate::deflate::slide_hash::slide_hash, stub_slide_hash_nop)]
fn kd10_params_tune() {
    let mut w = [0u8; 2 << WB];
    let mut p = [0u16; 1 << WB];
    let mut h = [0u16; HASH_SIZE];
    let mut pe = [MaybeUninit::new(0u8); 4 * LB];
    let mut sy = [0u8; 3 * LB];
    let level0: i8 = kani::any();
    kani::assume(level0 >= 0 && level0 <= 9);
    let mut state = typed_state(&mut w, &mut p, &mut h, &mut pe, &mut sy, WB, LB, level0, 0, Strategy::Default);
    state.window_size = 2 << WB;
    state.last_flush = kani::any();
    state.matches = kani::any();
    state.status = Status::Busy;
    let mut stream = typed_stream(unsafe { &mut *(&mut state as *mut State) });
    let mut o = [0u8; 4];
    stream.next_out = o.as_mut_ptr();
    stream.avail_out = 4;
    let level: i32 = kani::any();
    let sel: u8 = kani::any();
    kani::assume(sel < 5);
    let strategy = match sel {
        0 => Strategy::Default,
        1 => Strategy::Filtered,
        2 => Strategy::HuffmanOnly,
        3 => Strategy::Rle,
        _ => Strategy::Fixed,
    };
    let rc = params(&mut stream, level, strategy);
    let eff = if level == -1 { 6 } else { level };
    if !(0..=9).contains(&eff) {
        assert!(rc == ReturnCode::StreamError);
        assert!(stream.state.level == level0);
    } else {
        assert!(rc == ReturnCode::Ok);
        assert!(stream.state.level as i32 == eff && stream.state.strategy == strategy);
        let cfg = &self::algorithm::CONFIGURATION_TABLE[eff as usize];
        if eff != level0 as i32 {
            assert!(stream.state.max_lazy_match == cfg.max_lazy && stream.state.good_match == cfg.good_length);
            assert!(stream.state.nice_match == cfg.nice_length && stream.state.max_chain_length == cfg.max_chain);
        }
    }
    // tune: any four values, always Ok, stored truncated to 16 bits like zlib-ng's struct fields
    let (g, l, n, c): (usize, usize, usize, usize) = (kani::any(), kani::any(), kani::any(), kani::any());
    assert!(tune(&mut stream, g, l, n, c) == ReturnCode::Ok);
    assert!(stream.state.good_match == g as u16 && stream.state.max_lazy_match == l as u16);
    assert!(stream.state.nice_match == n as u16 && stream.state.max_chain_length == c as u16);
    // pending(): bytes and bits waiting
    let (pb, bits) = stream.pending();
    assert!(pb == stream.state.bit_writer.pending.pending().len() && bits == stream.state.bit_writer.bits_valid);
    kani::cover!(rc == ReturnCode::StreamError);
    kani::cover!(rc == ReturnCode::Ok && level == -1);
    core::mem::forget(stream);
    core::mem::forget(state);
}

fn stub_slide_hash_nop(_s: &mut State) {}

/// marks the call in a field nothing else in `params` touches
fn stub_slide_hash_counted(s: &mut State) {
    s.ins_h += 1;
}

/// Leaving level 0: deflate_stored does not maintain the hash table and records in `matches` what it owes — one slide (1)
/// or a full clear (2).  deflateParams settles the debt before a match finder reads the table again; at every other level
/// change, and when the level stays 0, the table and the counter are left alone.  (First call after init/reset, so no flush
/// precedes the switch.)
#[kani::proof]
#[kani::unwind(12)]
#[kani::stub(core::fmt::write, stub_fmt_write)]
#[kani::stub(core::panicking::panic_nounwind, stub_pn)]
#[kani::stub(core::panicking::panic_nounwind_fmt, stub_pnf)]
#[kani::stub(<[u16]>::fill, stub_fill_zero)]
#[kani::stub(crate::deflate::slide_hash::slide_hash, stub_slide_hash_counted)]
fn kd10_params_leaving_level0_settles_the_hash_debt() {
    let mut w = [0u8; 2 << WB];
    let mut p = [0u16; 1 << WB];
    let mut h = [0u16; HASH_SIZE];
    let mut pe = [MaybeUninit::new(0u8); 4 * LB];
    let mut sy = [0u8; 3 * LB];
    let level0: i8 = kani::any();
    kani::assume(level0 >= 0 && level0 <= 9);
    let mut state = typed_state(&mut w, &mut p, &mut h, &mut pe, &mut sy, WB, LB, level0, 0, Strategy::Default);
    state.window_size = 2 << WB;
    state.last_flush = -2;
    let matches0: u8 = kani::any();
    kani::assume(matches0 <= 2);
    state.matches = matches0;
    state.status = Status::Busy;
    let dirty: usize = 0x1234;
    let dirty_val: u16 = kani::any();
    kani::assume(dirty_val != 0);
    state.head.as_mut_slice()[dirty] = dirty_val;
    state.ins_h = 0;
    let mut stream = typed_stream(unsafe { &mut *(&mut state as *mut State) });
    let mut o = [0u8; 4];
    stream.next_out = o.as_mut_ptr();
    stream.avail_out = 4;
    let level: i32 = kani::any();
    kani::assume(level >= 0 && level <= 9);
    let rc = params(&mut stream, level, Strategy::Default);
    assert!(rc != ReturnCode::BufError, "not BufError");
    assert!(rc != ReturnCode::StreamError, "not StreamError");
    assert!(rc == ReturnCode::Ok, "rc ok");
    assert!(stream.state.level as i32 == level, "level installed");
    let slid = stream.state.ins_h as u32;
    if level0 == 0 && level != 0 && matches0 != 0 {
        assert!(stream.state.matches == 0, "the deferred hash maintenance is done when level 0 is left");
        assert!(matches0 != 2 || stream.state.head.as_slice()[dirty] == 0, "stale positions are cleared");
        assert!(slid == (matches0 == 1) as u32);
    } else {
        assert!(stream.state.matches == matches0, "no debt is settled (or forgotten) otherwise");
        assert!(stream.state.head.as_slice()[dirty] == dirty_val);
        assert!(slid == 0);
    }
    kani::cover!(level0 == 0 && level == 7 && matches0 == 2);
    kani::cover!(level0 == 0 && level == 1 && matches0 == 1);
    kani::cover!(level0 == 3 && level == 0);
    core::mem::forget(stream);
    core::mem::forget(state);
}

/// set_header: only for gzip streams
#[kani::proof]
#[kani::unwind(4)]
#[kani::stub(core::fmt::write, stub_fmt_write)]
#[kani::stub(core::panicking::panic_nounwind, stub_pn)]
#[kani::stub(core::panicking::panic_nounwind_fmt, stub_pnf)]
fn kd10_set_header() {
    let mut w = [0u8; 2 << WB];
    let mut p = [0u16; 1 << WB];
    let mut h = [0u16; HASH_SIZE];
    let mut pe = [MaybeUninit::new(0u8); 4 * LB];
    let mut sy = [0u8; 3 * LB];
    let wrap: i8 = kani::any();
    kani::assume(wrap >= -2 && wrap <= 2);
    let mut state = typed_state(&mut w, &mut p, &mut h, &mut pe, &mut sy, WB, LB, 6, wrap, Strategy::Default);
    let mut stream = typed_stream(unsafe { &mut *(&mut state as *mut State) });
    let mut head = gz_header::default();
    let with: bool = kani::any();
    let hp = if with { Some(unsafe { &mut *(&mut head as *mut gz_header) }) } else { None };
    let rc = unsafe { set_header(&mut stream, hp) };
    assert!((rc == ReturnCode::Ok) == (wrap == 2));
    assert!(rc == ReturnCode::Ok || rc == ReturnCode::StreamError);
    if rc == ReturnCode::Ok {
        assert!(stream.state.gzhead.is_some() == with);
    } else {
        assert!(stream.state.gzhead.is_none());
    }
    kani::cover!(rc == ReturnCode::Ok && with);
    core::mem::forget(stream);
    core::mem::forget(state);
}

/// stand-in for adler32 that remembers *which* slice was checksummed (start value, length, address)
pub(crate) fn stub_adler_ident(start: u32, data: &[u8]) -> u32 {
    start ^ (data.len() as u32).wrapping_mul(0x9e37_79b1) ^ (data.as_ptr() as usize as u32).wrapping_mul(0x85eb_ca6b)
}
/// contract stub: the window loader moves all the input it is given into the look-ahead (window contents are KD9's subject)
pub(crate) fn stub_fill_window_consume(stream: &mut DeflateStream) {
    // caller-side preconditions of the real fill_window (it computes `strstart - insert` and asserts the look-ahead bound)
    assert!(stream.state.insert <= stream.state.strstart, "fill_window: `insert` counts bytes that lie before `strstart`");
    assert!(stream.state.lookahead < MIN_LOOKAHEAD);
    stream.state.lookahead += stream.avail_in as usize;
    stream.next_in = stream.next_in.wrapping_add(stream.avail_in as usize);
    stream.avail_in = 0;
}
/// contract stub: hash insertion (KD9 / the match finders' subject) — only its precondition is kept
pub(crate) fn stub_insert_string_nop<'a>(state: &mut State<'a>, string: usize, count: usize)
where
    'a: 'a,
{
    assert!(string + count <= state.strstart + state.lookahead, "insert_string: positions inside the data");
}

/// deflateSetDictionary: state checks, DICTID = checksum of the *whole* dictionary the caller passed (also when it is
/// longer than the window and only its tail is loaded), caller's next_in/avail_in and wrap restored (C13, C05, C16).
#[kani::proof]
#[kani::unwind(4)]
#[kani::stub(core::fmt::write, stub_fmt_write)]
#[kani::stub(core::panicking::panic_nounwind, stub_pn)]
#[kani::stub(core::panicking::panic_nounwind_fmt, stub_pnf)]
#[kani::stub(<[u16]>::fill, stub_fill_zero)]
#[kani::stub(crate::adler32::adler32, stub_adler_ident)]
#[kani::stub(crate::deflate::fill_window, stub_fill_window_consume)]
#[kani::stub(crate::deflate::State::insert_string, stub_insert_string_nop)]
fn kd10_set_dictionary_protocol() {
    let mut w = [0u8; 2 << WB];
    let mut p = [0u16; 1 << WB];
    let mut h = [0u16; HASH_SIZE];
    let mut pe = [MaybeUninit::new(0u8); 4 * LB];
    let mut sy = [0u8; 3 * LB];
    let wrap: i8 = kani::any();
    kani::assume(wrap >= 0 && wrap <= 2);
    let mut state = typed_state(&mut w, &mut p, &mut h, &mut pe, &mut sy, WB, LB, 6, wrap, Strategy::Default);
    state.window_size = 2 << WB;
    let busy: bool = kani::any();
    state.status = if busy { Status::Busy } else if wrap == 2 { Status::GZip } else { Status::Init };
    let la: usize = kani::any();
    kani::assume(la <= 2);
    state.lookahead = la;
    state.strstart = kani::any();
    kani::assume(state.strstart <= 100);
    // strings at the end of the previous input still to be inserted into the hash (deflate_* leave min(strstart, 2) here)
    state.insert = kani::any();
    kani::assume(state.insert <= 2 && state.insert <= state.strstart);
    let mut stream = typed_stream(unsafe { &mut *(&mut state as *mut State) });
    let user_in = [0u8; 4];
    stream.next_in = user_in.as_ptr() as *mut u8;
    stream.avail_in = 3;
    stream.adler = 1;
    // dictionary of any length up to a bit more than twice the window (window = 512 bytes, capacity 1024)
    let dict = [0u8; 1100];
    let dl: usize = kani::any();
    kani::assume(dl <= 1100);
    let strstart0 = stream.state.strstart;
    let rc = set_dictionary(&mut stream, &dict[..dl]);
    let refused = wrap == 2 || (wrap == 1 && busy) || la != 0;
    if refused {
        assert!(rc == ReturnCode::StreamError);
        assert!(stream.adler == 1 && stream.state.wrap == wrap);
    } else {
        assert!(rc == ReturnCode::Ok);
        if wrap == 1 {
            // the identifier announced in the zlib header is the checksum of the dictionary as passed by the caller
            assert!(stream.adler as u32 == crate::adler32::adler32(1, &dict[..dl]), "DICTID covers the whole dictionary");
        } else {
            assert!(stream.adler == 1);
        }
        assert!(stream.state.wrap == wrap, "wrap restored");
        assert!(stream.state.lookahead == 0 && !stream.state.match_available);
        assert!(stream.state.insert <= 2 && stream.state.insert <= stream.state.strstart);
        assert!(stream.state.block_start == stream.state.strstart as isize, "the first block starts after the dictionary: none of its bytes is data");
        // zlib: `if (dictLength >= s->w_size)` the history is replaced by the last w_size bytes of the dictionary (a raw
        // stream restarts at position 0); a shorter dictionary is appended whole
        let w_size = 1usize << WB;
        let expect = if dl >= w_size { (if wrap == 0 { 0 } else { strstart0 }) + w_size } else { strstart0 + dl };
        // (stated where the real window loader takes everything in one go as the contract stub does, i.e. without a slide,
        // so that a counter-example replays natively; beyond that `expect` still holds under the stub)
        if dl >= 2 * w_size || strstart0 + dl <= 2 * w_size - MIN_LOOKAHEAD {
            assert!(stream.state.strstart == expect, "a dictionary of w_size bytes or more is cut to its last w_size bytes");
        }
    }
    assert!(stream.next_in as usize == user_in.as_ptr() as usize && stream.avail_in == 3, "caller's input cursor restored");
    kani::cover!(rc == ReturnCode::Ok && wrap == 1 && dl == 1100);
    kani::cover!(rc == ReturnCode::Ok && wrap == 0 && dl >= 1024);
    kani::cover!(rc == ReturnCode::StreamError && wrap == 1);
    core::mem::forget(stream);
    core::mem::forget(state);
}

// ---------------------------------------------------------------------------------------------------------------
// KA2 — deflateEnd: whatever the stream's status, the state block obtained from zalloc goes back to zfree exactly
// once, with the pointer zalloc returned and the same opaque handle, and the stream is left without a state (C18).
// ---------------------------------------------------------------------------------------------------------------
/// user allocator context, reached through `opaque` (no statics: a native replay runs several tests in one process)
pub(crate) struct ArenaCtx {
    pub arena: [u8; 192],
    pub freed: usize,
    pub free_calls: u32,
    pub alloc_calls: u32,
}
unsafe extern "C" fn za_arena(o: *mut core::ffi::c_void, _items: u32, _size: u32) -> *mut core::ffi::c_void {
    let c = unsafe { &mut *(o as *mut ArenaCtx) };
    c.alloc_calls += 1;
    unsafe { c.arena.as_mut_ptr().add(3) as *mut core::ffi::c_void } // deliberately misaligned
}
unsafe extern "C" fn zf_arena(o: *mut core::ffi::c_void, p: *mut core::ffi::c_void) {
    let c = unsafe { &mut *(o as *mut ArenaCtx) };
    c.freed = p as usize;
    c.free_calls += 1;
}

#[kani::proof]
#[kani::unwind(4)]
#[kani::stub(core::fmt::write, stub_fmt_write)]
#[kani::stub(core::panicking::panic_nounwind, stub_pn)]
#[kani::stub(core::panicking::panic_nounwind_fmt, stub_pnf)]
fn ka2_deflate_end_releases_once() {
    let mut w = [0u8; 2 << WB];
    let mut p = [0u16; 1 << WB];
    let mut h = [0u16; HASH_SIZE];
    let mut pe = [MaybeUninit::new(0u8); 4 * LB];
    let mut sy = [0u8; 3 * LB];
    let mut state = typed_state(&mut w, &mut p, &mut h, &mut pe, &mut sy, WB, LB, 6, 1, Strategy::Default);
    let mut ctx = ArenaCtx { arena: [0xEE; 192], freed: 0, free_calls: 0, alloc_calls: 0 };
    let ctxp = &mut ctx as *mut ArenaCtx;
    let alloc = Allocator { zalloc: za_arena, zfree: zf_arena, opaque: ctxp as *mut core::ffi::c_void, _marker: PhantomData };
    // the block as init()/copy() obtain it
    let block = alloc.allocate_slice_raw::<u8>(64).unwrap();
    state.allocation_start = block;
    state.total_allocation_size = 64;
    state.status = match kani::any::<u8>() % 8 {
        0 => Status::Init,
        1 => Status::GZip,
        2 => Status::Extra,
        3 => Status::Name,
        4 => Status::Comment,
        5 => Status::Hcrc,
        6 => Status::Busy,
        _ => Status::Finish,
    };
    let busy = state.status == Status::Busy;
    let mut stream = typed_stream(unsafe { &mut *(&mut state as *mut State) });
    stream.alloc = alloc;
    let r = end(&mut stream);
    // deflateEnd reports Z_DATA_ERROR for a stream abandoned mid-way, but it has released everything all the same
    let (is_err, z) = match r {
        Ok(z) => (false, z),
        Err(z) => (true, z),
    };
    assert!(is_err == busy);
    assert!(z.state.is_null(), "no state left: a second End is refused instead of freeing twice");
    let c = unsafe { &*ctxp };
    assert!(c.alloc_calls == 1 && c.free_calls == 1, "the state block is released exactly once, whatever the status");
    assert!(c.freed == c.arena.as_ptr() as usize + 3, "zfree receives the pointer zalloc returned (and through the same opaque handle)");
    kani::cover!(busy);
    kani::cover!(!busy);
    core::mem::forget(state);
}

/// deflateBound's gzip wrapper length: whatever subset of the optional header fields the caller supplied, the bound grows by
/// exactly the bytes deflate() writes for them — 2 + extra_len for an extra field, the string and its terminator for name and
/// for comment (each on its own: a missing name does not hide the comment), 2 for the header CRC (C07, C20).
#[kani::proof]
#[kani::unwind(8)]
#[kani::stub(core::fmt::write, stub_fmt_write)]
#[kani::stub(core::panicking::panic_nounwind, stub_pn)]
#[kani::stub(core::panicking::panic_nounwind_fmt, stub_pnf)]
fn kd11_bound_counts_every_gzip_header_field() {
    let mut w = [0u8; 2 << WB];
    let mut p = [0u16; 1 << WB];
    let mut h = [0u16; HASH_SIZE];
    let mut pe = [MaybeUninit::new(0u8); 4 * LB];
    let mut sy = [0u8; 3 * LB];
    let level: i8 = kani::any();
    kani::assume(level >= 0 && level <= 9);
    let mut state = typed_state(&mut w, &mut p, &mut h, &mut pe, &mut sy, WB, LB, level, 2, Strategy::Default);
    let n: usize = kani::any();
    kani::assume(n <= 1 << 30);
    let base = {
        let mut stream = typed_stream(unsafe { &mut *(&mut state as *mut State) });
        let b = bound(Some(&mut stream), n);
        core::mem::forget(stream);
        b
    };
    let mut name = *b"ab\0";
    let mut comment = *b"wxyz\0";
    let mut extra = [7u8; 6];
    let (has_extra, has_name, has_comment, has_hcrc): (bool, bool, bool, bool) = (kani::any(), kani::any(), kani::any(), kani::any());
    let mut gz = gz_header::default();
    if has_extra {
        gz.extra = extra.as_mut_ptr();
        gz.extra_len = 6;
    }
    if has_name {
        gz.name = name.as_mut_ptr();
    }
    if has_comment {
        gz.comment = comment.as_mut_ptr();
    }
    let hcrc: i32 = kani::any();
    gz.hcrc = if has_hcrc { hcrc } else { 0 };
    kani::assume(!has_hcrc || hcrc != 0);
    state.gzhead = Some(unsafe { &mut *(&mut gz as *mut gz_header) });
    let mut stream = typed_stream(unsafe { &mut *(&mut state as *mut State) });
    let with = bound(Some(&mut stream), n);
    core::mem::forget(stream);
    let fields = (if has_extra { 2 + 6 } else { 0 }) + (if has_name { 3 } else { 0 }) + (if has_comment { 5 } else { 0 }) + (if has_hcrc { 2 } else { 0 });
    assert!(with == base + fields, "every supplied field is counted, independently of the others");
    kani::cover!(!has_name && has_comment);
    kani::cover!(has_extra && has_name && has_comment && has_hcrc && hcrc < 0);
    core::mem::forget(state);
}

/// deflateBound's zlib wrapper length: the bound of a stream whose header will announce a preset dictionary (FDICT) is the
/// bound of the same stream without one plus the four DICTID bytes deflate() then writes - decided against the flag the
/// header writer itself computes, for every window position pair deflateSetDictionary can leave behind (C07, C13).
#[kani::proof]
#[kani::unwind(4)]
#[kani::stub(core::fmt::write, stub_fmt_write)]
#[kani::stub(core::panicking::panic_nounwind, stub_pn)]
#[kani::stub(core::panicking::panic_nounwind_fmt, stub_pnf)]
fn kd11_bound_counts_the_dictionary_id() {
    let mut w = [0u8; 2 << WB];
    let mut p = [0u16; 1 << WB];
    let mut h = [0u16; HASH_SIZE];
    let mut pe = [MaybeUninit::new(0u8); 4 * LB];
    let mut sy = [0u8; 3 * LB];
    let level: i8 = kani::any();
    kani::assume(level >= 0 && level <= 9);
    let mut state = typed_state(&mut w, &mut p, &mut h, &mut pe, &mut sy, WB, LB, level, 1, Strategy::Default);
    state.status = Status::Init;
    let n: usize = kani::any();
    kani::assume(n <= 1 << 30);
    let base = {
        let mut stream = typed_stream(unsafe { &mut *(&mut state as *mut State) });
        let b = bound(Some(&mut stream), n);
        core::mem::forget(stream);
        b
    };
    // what deflateSetDictionary leaves behind: the dictionary (or its tail) below strstart, at most MIN_MATCH - 1 bytes of
    // it still in the look-ahead
    let strstart: usize = kani::any();
    let lookahead: usize = kani::any();
    kani::assume(strstart <= 2 << WB && lookahead <= 2 && strstart + lookahead <= 2 << WB);
    state.strstart = strstart;
    state.lookahead = lookahead;
    state.block_start = strstart as isize;
    let announced = state.header() & 0x20 != 0;
    let mut stream = typed_stream(unsafe { &mut *(&mut state as *mut State) });
    let with = bound(Some(&mut stream), n);
    core::mem::forget(stream);
    assert!(with == base + if announced { 4 } else { 0 }, "the DICTID the header will carry is counted");
    assert!(announced == (strstart != 0));
    kani::cover!(announced && lookahead == 0);
    kani::cover!(!announced);
    core::mem::forget(state);
}

/// deflateGetDictionary (zlib.h: "the sliding dictionary being maintained by deflate"; zlib-ng: the last
/// min(strstart + lookahead, w_size) bytes that deflate has taken in, look-ahead included): length and bytes for every
/// position pair, with canaries around the caller's buffer; a NULL buffer only reports the length.
#[kani::proof]
#[kani::unwind(4)]
#[kani::stub(core::fmt::write, stub_fmt_write)]
#[kani::stub(core::panicking::panic_nounwind, stub_pn)]
#[kani::stub(core::panicking::panic_nounwind_fmt, stub_pnf)]
fn kd10_get_dictionary_is_the_window_tail() {
    const WBG: usize = 4; // w_size 16, window 32 bytes
    let mut w: [u8; 2 << WBG] = kani::any();
    let w0 = w;
    let mut p = [0u16; 1 << WBG];
    let mut h = [0u16; HASH_SIZE];
    let mut pe = [MaybeUninit::new(0u8); 4 * 8];
    let mut sy = [0u8; 3 * 8];
    let mut state = typed_state(&mut w, &mut p, &mut h, &mut pe, &mut sy, WBG, 8, 6, 0, Strategy::Default);
    state.window_size = 2 << WBG;
    let strstart: usize = kani::any();
    let lookahead: usize = kani::any();
    kani::assume(strstart <= 32 && lookahead <= 32 && strstart + lookahead <= 32);
    state.strstart = strstart;
    state.lookahead = lookahead;
    let stream = typed_stream(unsafe { &mut *(&mut state as *mut State) });
    let mut out = [0xEEu8; 16 + 2];
    let n = unsafe { get_dictionary(&stream, out.as_mut_ptr().add(1)) };
    let end = strstart + lookahead;
    assert!(n == Ord::min(end, 16), "everything deflate has taken in, capped at the window size");
    let i: usize = kani::any();
    kani::assume(i < 16);
    if i < n {
        assert!(out[1 + i] == w0[end - n + i], "oldest first, ending with the newest byte taken in");
    } else {
        assert!(out[1 + i] == 0xEE);
    }
    assert!(out[0] == 0xEE && out[17] == 0xEE);
    let n2 = unsafe { get_dictionary(&stream, core::ptr::null_mut()) };
    assert!(n2 == n);
    kani::cover!(n == 16 && lookahead == 3);
    kani::cover!(n == 5 && strstart == 0);
    core::mem::forget(stream);
    core::mem::forget(state);
}
