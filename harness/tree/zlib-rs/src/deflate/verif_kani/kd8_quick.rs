use super::*;
