//! KD8 — level-1 path (deflate_quick + fill_window + hash insert) end to end on a typed state, concrete input
//! length per instance, symbolic contents; oracle = fixed-Huffman reference decoder in the harness (C01, C05, C06, C07, C11).
use super::*;

const WB: usize = 9; // w_size 512: the smallest for which max_dist = w_size - 262 is positive
const LB: usize = 16;

struct Bits<'a> {
    d: &'a [u8],
    pos: usize,
}
impl<'a> Bits<'a> {
    fn bit(&mut self) -> u32 {
        let b = (self.d[self.pos >> 3] >> (self.pos & 7)) & 1;
        self.pos += 1;
        b as u32
    }
    fn bits(&mut self, n: u32) -> u32 {
        let mut v = 0;
        let mut i = 0;
        while i < n {
            v |= self.bit() << i;
            i += 1;
        }
        v
    }
    fn code(&mut self, n: u32) -> u32 {
        let mut v = 0;
        let mut i = 0;
        while i < n {
            v = (v << 1) | self.bit();
            i += 1;
        }
        v
    }
}

/// reference decoder for a sequence of fixed-Huffman blocks (RFC 1951 3.2.6); returns (bytes, saw final block, bit position)
fn ref_inflate_fixed(src: &[u8], dst: &mut [u8], max_syms: usize) -> Option<(usize, bool, usize)> {
    let mut b = Bits { d: src, pos: 0 };
    let hdr = b.bits(3);
    if hdr & 6 != 2 {
        return None; // BTYPE must be 01
    }
    let last = hdr & 1 != 0;
    let mut n = 0usize;
    let mut guard = 0;
    while guard < max_syms {
        guard += 1;
        let mut c = b.code(7);
        let sym = if c <= 0x17 {
            256 + c
        } else {
            c = (c << 1) | b.bit();
            if c >= 0x30 && c <= 0xbf {
                c - 0x30
            } else if c >= 0xc0 && c <= 0xc7 {
                280 + c - 0xc0
            } else {
                c = (c << 1) | b.bit();
                144 + c - 0x190
            }
        };
        if sym < 256 {
            if n >= dst.len() {
                return None;
            }
            dst[n] = sym as u8;
            n += 1;
        } else if sym == 256 {
            return Some((n, last, b.pos));
        } else {
            let li = (sym - 257) as usize;
            if li >= 29 {
                return None;
            }
            let len = RFC_LBASE[li] as usize + b.bits(RFC_LEXT[li] as u32) as usize;
            let dc = b.code(5) as usize;
            if dc >= 30 {
                return None;
            }
            let dist = RFC_DBASE[dc] as usize + b.bits(RFC_DEXT[dc] as u32) as usize;
            if dist > n || n + len > dst.len() {
                return None; // reaches before the start of the data
            }
            let mut k = 0;
            while k < len {
                dst[n] = dst[n - dist];
                n += 1;
                k += 1;
            }
        }
    }
    None
}

fn quick_finish<const N: usize>() {
    let mut w = [0u8; 2 << WB];
    let mut p = [0u16; 1 << WB];
    let mut h = [0u16; HASH_SIZE];
    let mut pe = [MaybeUninit::new(0u8); 4 * LB];
    let mut sy = [0u8; 3 * LB];
    let mut state = typed_state(&mut w, &mut p, &mut h, &mut pe, &mut sy, WB, LB, 1, 0, Strategy::Default);
    let mut stream = typed_stream(unsafe { &mut *(&mut state as *mut State) });
    assert!(reset(&mut stream) == ReturnCode::Ok);
    let input: [u8; N] = kani::any();
    let mut out = [0u8; 16];
    const SPACE: u32 = 14;
    stream.next_in = input.as_ptr() as *mut u8;
    stream.avail_in = N as u32;
    stream.next_out = out.as_mut_ptr();
    stream.avail_out = SPACE;
    let b = bound(Some(&mut stream), N);
    let rc = deflate(&mut stream, DeflateFlush::Finish);
    assert!(rc == ReturnCode::StreamEnd);
    let produced = (SPACE - stream.avail_out) as usize;
    assert!(stream.total_in as usize == N && stream.avail_in == 0 && stream.total_out as usize == produced);
    assert!(produced <= b, "deflateBound is an upper bound (level 1, this length)");
    assert!(out[14] == 0 && out[15] == 0);
    core::mem::forget(stream);
    core::mem::forget(state);
    let mut back = [0u8; N];
    let r = ref_inflate_fixed(&out, &mut back, N + 1);
    match r {
        Some((n, last, bitpos)) => {
            assert!(n == N && last, "one final fixed block holding all the input");
            assert!((bitpos + 7) / 8 == produced, "nothing after the final block but padding");
            let mut i = 0;
            while i < N {
                assert!(back[i] == input[i]);
                i += 1;
            }
        }
        None => assert!(false, "emitted stream is not a valid fixed-Huffman block"),
    }
    kani::cover!(N < 5 || produced < N + 2, "end reached (for N >= 5: shorter than literal coding, i.e. a match was emitted)");
}

#[kani::proof]
#[kani::unwind(12)]
#[kani::stub(core::fmt::write, stub_fmt_write)]
#[kani::stub(core::panicking::panic_nounwind, stub_pn)]
#[kani::stub(core::panicking::panic_nounwind_fmt, stub_pnf)]
#[kani::stub(<[u16]>::fill, stub_fill_zero)]
#[kani::stub(<[u8]>::fill, stub_fill_zero)]
#[kani::stub(crate::deflate::State::init_block, stub_init_block)]
fn kd8_quick_finish_n3() {
    quick_finish::<3>();
}

#[kani::proof]
#[kani::unwind(12)]
#[kani::stub(core::fmt::write, stub_fmt_write)]
#[kani::stub(core::panicking::panic_nounwind, stub_pn)]
#[kani::stub(core::panicking::panic_nounwind_fmt, stub_pnf)]
#[kani::stub(<[u16]>::fill, stub_fill_zero)]
#[kani::stub(<[u8]>::fill, stub_fill_zero)]
#[kani::stub(crate::deflate::State::init_block, stub_init_block)]
fn kd8_quick_finish_n1() {
    quick_finish::<1>();
}

#[kani::proof]
#[kani::unwind(14)]
#[kani::stub(core::fmt::write, stub_fmt_write)]
#[kani::stub(core::panicking::panic_nounwind, stub_pn)]
#[kani::stub(core::panicking::panic_nounwind_fmt, stub_pnf)]
#[kani::stub(<[u16]>::fill, stub_fill_zero)]
#[kani::stub(<[u8]>::fill, stub_fill_zero)]
#[kani::stub(crate::deflate::State::init_block, stub_init_block)]
fn kd8_quick_finish_n5() {
    quick_finish::<5>();
}

/// `init_block` clears 286 + 30 + 19 frequency counters in three loops; level 1 never reads them.  Model: same
/// post-state for every field the quick path uses (opt_len, static_len, sym_buf, matches), frequencies via write_bytes.
pub(crate) fn stub_init_block<'a>(s: &mut State<'a>)
where
    'a: 'a,
{
    unsafe {
        core::ptr::write_bytes(s.l_desc.dyn_tree.as_mut_ptr(), 0, L_CODES);
        core::ptr::write_bytes(s.d_desc.dyn_tree.as_mut_ptr(), 0, D_CODES);
        core::ptr::write_bytes(s.bl_desc.dyn_tree.as_mut_ptr(), 0, BL_CODES);
    }
    *s.l_desc.dyn_tree[256].freq_mut() = 1;
    s.opt_len = 0;
    s.static_len = 0;
    s.sym_buf.clear();
    s.matches = 0;
}

/// Sync flush at level 1: the block is closed, the output so far decodes to all the input, followed by the marker (C11)
#[kani::proof]
#[kani::unwind(12)]
#[kani::stub(core::fmt::write, stub_fmt_write)]
#[kani::stub(core::panicking::panic_nounwind, stub_pn)]
#[kani::stub(core::panicking::panic_nounwind_fmt, stub_pnf)]
#[kani::stub(<[u16]>::fill, stub_fill_zero)]
#[kani::stub(<[u8]>::fill, stub_fill_zero)]
#[kani::stub(crate::deflate::State::init_block, stub_init_block)]
fn kd8_quick_sync_n3() {
    const N: usize = 3;
    let mut w = [0u8; 2 << WB];
    let mut p = [0u16; 1 << WB];
    let mut h = [0u16; HASH_SIZE];
    let mut pe = [MaybeUninit::new(0u8); 4 * LB];
    let mut sy = [0u8; 3 * LB];
    let mut state = typed_state(&mut w, &mut p, &mut h, &mut pe, &mut sy, WB, LB, 1, 0, Strategy::Default);
    let mut stream = typed_stream(unsafe { &mut *(&mut state as *mut State) });
    assert!(reset(&mut stream) == ReturnCode::Ok);
    let input: [u8; N] = kani::any();
    let mut out = [0u8; 20];
    stream.next_in = input.as_ptr() as *mut u8;
    stream.avail_in = N as u32;
    stream.next_out = out.as_mut_ptr();
    stream.avail_out = 18;
    let full: bool = kani::any();
    let rc = deflate(&mut stream, if full { DeflateFlush::FullFlush } else { DeflateFlush::SyncFlush });
    assert!(rc == ReturnCode::Ok);
    let produced = (18 - stream.avail_out) as usize;
    assert!(stream.avail_in == 0 && stream.avail_out > 0);
    assert!(stream.state.block_open == 0 && stream.state.bit_writer.bits_valid == 0, "byte aligned after the flush");
    if full {
        assert!(stream.state.strstart == 0 && stream.state.block_start == 0);
    }
    core::mem::forget(stream);
    core::mem::forget(state);
    let mut back = [0u8; N];
    let r = ref_inflate_fixed(&out, &mut back, N + 1);
    match r {
        Some((n, last, bitpos)) => {
            assert!(n == N && !last);
            let mut i = 0;
            while i < N {
                assert!(back[i] == input[i]);
                i += 1;
            }
            // then: empty stored block, byte aligned: (3 header bits, padding) 00 00 FF FF
            let hdr_byte = bitpos / 8;
            assert!((out[hdr_byte] >> (bitpos % 8)) & 7 == 0, "BFINAL 0, BTYPE 00");
            assert!(produced >= 4);
            assert!(out[produced - 4] == 0 && out[produced - 3] == 0 && out[produced - 2] == 0xff && out[produced - 1] == 0xff);
            assert!(produced - 4 == (bitpos + 3 + 7) / 8);
        }
        None => assert!(false, "flushed prefix is not a valid fixed-Huffman block"),
    }
    kani::cover!(full);
    kani::cover!(!full && produced == 9);
}
