//! KD9 — hash-chain slide (child of deflate/slide_hash.rs): every entry moves down by the window size, entries that pointed
//! into the discarded half become NIL (0).  C01.
#![allow(dead_code, unused_imports, unused_variables, unused_mut, clippy::all)]
use super::*;
use crate::verif_kani::*;

#[kani::proof]
#[kani::unwind(70)]
#[kani::stub(core::fmt::write, stub_fmt_write)]
#[kani::stub(core::panicking::panic_nounwind, stub_pn)]
#[kani::stub(core::panicking::panic_nounwind_fmt, stub_pnf)]
fn kd9_slide_hash_chain() {
    let t0: [u16; 64] = kani::any();
    let mut t = t0;
    let wsize: u16 = kani::any();
    slide_hash_chain(&mut t, wsize);
    let k: usize = kani::any();
    kani::assume(k < 64);
    assert!(t[k] == if t0[k] >= wsize { t0[k] - wsize } else { 0 });
    kani::cover!(t0[k] == wsize && k == 63);
}
