//! Kani harnesses for `zlib_rs::deflate` (injected as `crate::deflate::verif_kani`, so private items are reachable).
#![allow(dead_code, unused_imports, unused_variables, unused_mut, clippy::all)]

use super::*;
pub(crate) use crate::verif_kani::*;

mod kd1_bitwriter;
mod kd2_tables;
mod kd6_stored;
mod kd7_machine;
mod kd8_quick;
mod kd10_entry;
mod kd4_trees;
mod kd9_window;

// ---------------------------------------------------------------------------------------------
// typed deflate state (never through `init()`: DESIGN.md §1 R1/R2).  Every buffer is its own local.
// ---------------------------------------------------------------------------------------------
pub(crate) unsafe extern "C" fn za_fail(_o: *mut core::ffi::c_void, _i: u32, _s: u32) -> *mut core::ffi::c_void {
    core::ptr::null_mut()
}
pub(crate) unsafe extern "C" fn zf_nop(_o: *mut core::ffi::c_void, _p: *mut core::ffi::c_void) {}

/// Build a `State` with the same struct literal `init()` uses, over caller-provided typed buffers.
/// `wb` = log2(w_size); `lb` = lit_bufsize (pending = 4*lb bytes, sym_buf = 3*lb bytes).
pub(crate) fn typed_state<'a>(
    w: &'a mut [u8],
    p: &'a mut [u16],
    h: &'a mut [u16; HASH_SIZE],
    pe: &'a mut [MaybeUninit<u8>],
    sy: &'a mut [u8],
    wb: usize,
    lb: usize,
    level: i8,
    wrap: i8,
    strategy: Strategy,
) -> State<'a> {
    assert!(w.len() == 2 << wb && p.len() == 1 << wb && pe.len() == 4 * lb && sy.len() == 3 * lb);
    let window = unsafe { Window::from_raw_parts(w.as_mut_ptr(), wb) };
    let prev = unsafe { WeakSliceMut::from_raw_parts_mut(p.as_mut_ptr(), 1 << wb) };
    let head = unsafe { WeakArrayMut::<Pos, HASH_SIZE>::from_ptr(h as *mut [u16; HASH_SIZE]) };
    let pending = unsafe { Pending::from_raw_parts(pe.as_mut_ptr(), 4 * lb) };
    let sym_buf = unsafe { SymBuf::from_raw_parts(sy.as_mut_ptr(), lb) };
    State {
        status: Status::Init,
        w_size: 1 << wb,
        window,
        prev,
        head,
        bit_writer: BitWriter::from_pending(pending),
        lit_bufsize: lb,
        sym_buf,
        level,
        strategy,
        last_flush: 0,
        wrap,
        strstart: 0,
        block_start: 0,
        block_open: 0,
        window_size: 0,
        insert: 0,
        matches: 0,
        opt_len: 0,
        static_len: 0,
        lookahead: 0,
        ins_h: 0,
        max_chain_length: 0,
        max_lazy_match: 0,
        good_match: 0,
        nice_match: 0,
        l_desc: TreeDesc::EMPTY,
        d_desc: TreeDesc::EMPTY,
        bl_desc: TreeDesc::EMPTY,
        crc_fold: Crc32Fold::new(),
        gzhead: None,
        gzindex: 0,
        match_start: 0,
        prev_match: 0,
        match_available: false,
        prev_length: 0,
        allocation_start: NonNull::dangling(),
        total_allocation_size: 0,
        hash_calc_variant: HashCalcVariant::Standard,
        _cache_line_0: (),
        _cache_line_1: (),
        _cache_line_2: (),
        _cache_line_3: (),
        _padding_0: [0; 16],
    }
}

pub(crate) fn typed_stream<'a>(state: &'a mut State<'a>) -> DeflateStream<'a> {
    DeflateStream {
        next_in: core::ptr::null_mut(),
        avail_in: 0,
        total_in: 0,
        next_out: core::ptr::null_mut(),
        avail_out: 0,
        total_out: 0,
        msg: core::ptr::null(),
        state,
        alloc: Allocator { zalloc: za_fail, zfree: zf_nop, opaque: core::ptr::null_mut(), _marker: PhantomData },
        data_type: 0,
        adler: 0,
        reserved: 0,
    }
}

// ---------------------------------------------------------------------------------------------
// RFC 1951 reference tables (transcribed from the RFC text, §3.2.5 / §3.2.6) — the oracle.
// ---------------------------------------------------------------------------------------------
pub(crate) const RFC_LBASE: [u16; 29] = [
    3, 4, 5, 6, 7, 8, 9, 10, 11, 13, 15, 17, 19, 23, 27, 31, 35, 43, 51, 59, 67, 83, 99, 115, 131, 163, 195, 227, 258,
];
pub(crate) const RFC_LEXT: [u8; 29] = [0, 0, 0, 0, 0, 0, 0, 0, 1, 1, 1, 1, 2, 2, 2, 2, 3, 3, 3, 3, 4, 4, 4, 4, 5, 5, 5, 5, 0];
pub(crate) const RFC_DBASE: [u16; 30] = [
    1, 2, 3, 4, 5, 7, 9, 13, 17, 25, 33, 49, 65, 97, 129, 193, 257, 385, 513, 769, 1025, 1537, 2049, 3073, 4097, 6145,
    8193, 12289, 16385, 24577,
];
pub(crate) const RFC_DEXT: [u8; 30] =
    [0, 0, 0, 0, 1, 1, 2, 2, 3, 3, 4, 4, 5, 5, 6, 6, 7, 7, 8, 8, 9, 9, 10, 10, 11, 11, 12, 12, 13, 13];

/// (symbol, extra bits, extra value) for a match length 3..=258
pub(crate) fn rfc_len(len: u16) -> (u16, u8, u16) {
    let mut i = 28;
    while RFC_LBASE[i] > len {
        i -= 1;
    }
    // RFC: length 258 is code 285 with 0 extra bits (not 284 + 31)
    (257 + i as u16, RFC_LEXT[i], len - RFC_LBASE[i])
}
/// (symbol, extra bits, extra value) for a distance 1..=32768
pub(crate) fn rfc_dist(dist: u16) -> (u16, u8, u16) {
    let mut i = 29;
    while RFC_DBASE[i] > dist {
        i -= 1;
    }
    (i as u16, RFC_DEXT[i], dist - RFC_DBASE[i])
}
/// RFC 1951 §3.2.6 fixed literal/length code (MSB-first code value, length)
pub(crate) fn rfc_fixed_lit_code(sym: u16) -> (u16, u8) {
    if sym <= 143 {
        (0x30 + sym, 8)
    } else if sym <= 255 {
        (0x190 + (sym - 144), 9)
    } else if sym <= 279 {
        (sym - 256, 7)
    } else {
        (0xc0 + (sym - 280), 8)
    }
}
pub(crate) fn rev16(v: u16, n: u8) -> u16 {
    v.reverse_bits() >> (16 - n)
}

/// Little-endian bit queue model (RFC 1951 §3.1.1 packing): 256 bits of capacity.
pub(crate) struct BitModel {
    pub w: [u64; 4],
    pub n: u32,
}
impl BitModel {
    pub fn new() -> Self {
        BitModel { w: [0; 4], n: 0 }
    }
    pub fn push(&mut self, val: u64, len: u32) {
        if len == 0 {
            return;
        }
        let val = if len >= 64 { val } else { val & ((1u64 << len) - 1) };
        let idx = (self.n / 64) as usize;
        let off = self.n % 64;
        self.w[idx] |= val << off;
        if off + len > 64 {
            self.w[idx + 1] |= val >> (64 - off);
        }
        self.n += len;
    }
    pub fn byte(&self, i: usize) -> u8 {
        (self.w[i / 8] >> (8 * (i % 8))) as u8
    }
}
