//! KD10c — the buffer clones used by deflateCopy: the copy's observable contents equal the original's for every
//! (out, pending) position (C14).  The whole `deflate::copy` success path is not encodable (DESIGN.md §1); its kernels are.
#![allow(dead_code, unused_imports, unused_variables, unused_mut, clippy::all)]
use super::*;

#[kani::proof]
#[kani::unwind(20)]
fn kd10c_pending_clone_to() {
    const CAP: usize = 16;
    let mut src: [MaybeUninit<u8>; CAP] = [MaybeUninit::new(0); CAP];
    let content: [u8; CAP] = kani::any();
    let mut i = 0;
    while i < CAP {
        src[i] = MaybeUninit::new(content[i]);
        i += 1;
    }
    let mut p = unsafe { Pending::from_raw_parts(src.as_mut_ptr(), CAP) };
    // any reachable (out, pending): written n bytes, drained k of them
    let n: usize = kani::any();
    let k: usize = kani::any();
    kani::assume(n <= CAP && k <= n);
    p.pending = n;
    p.advance(k);
    let mut dst = [0xEEu8; CAP + 2];
    let q = unsafe { p.clone_to(dst.as_mut_ptr()) };
    assert!(q.pending().len() == p.pending().len());
    assert!(q.remaining() == p.remaining() && q.capacity() == p.capacity());
    let j: usize = kani::any();
    kani::assume(j < p.pending().len());
    assert!(q.pending()[j] == p.pending()[j], "the copy drains the same bytes as the original");
    assert!(dst[CAP] == 0xEE && dst[CAP + 1] == 0xEE);
    kani::cover!(k > 0 && k < n);
    kani::cover!(n == CAP && k == 0);
}
