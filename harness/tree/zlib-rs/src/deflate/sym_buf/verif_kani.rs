//! KD10c — SymBuf::clone_to: the copy holds the same symbols and keeps behaving like the original (C14, C10)
#![allow(dead_code, unused_imports, unused_variables, unused_mut, clippy::all)]
use super::*;

#[kani::proof]
#[kani::unwind(20)]
fn kd10c_symbuf_clone_to() {
    const LB: usize = 4; // 12 bytes
    let mut src: [u8; 3 * LB] = [0; 3 * LB];
    let mut s = unsafe { SymBuf::from_raw_parts(src.as_mut_ptr(), LB) };
    let nsym: usize = kani::any();
    kani::assume(nsym <= LB - 1);
    let mut i = 0;
    while i < LB - 1 {
        if i < nsym {
            if kani::any() {
                s.push_lit(kani::any());
            } else {
                s.push_dist(kani::any(), kani::any());
            }
        }
        i += 1;
    }
    let mut dst = [0xEEu8; 3 * LB + 2];
    let mut c = unsafe { s.clone_to(dst.as_mut_ptr()) };
    assert!(c.is_empty() == s.is_empty() && c.should_flush_block() == s.should_flush_block());
    {
        let mut a = s.iter();
        let mut b = c.iter();
        let mut k = 0;
        while k < LB {
            assert!(a.next() == b.next());
            k += 1;
        }
    }
    assert!(dst[3 * LB] == 0xEE);
    // ... and from then on behaves like the original, whatever the destination memory held before: `push_lit` writes only
    // the literal byte and relies on the two distance bytes of a free slot being zero
    if nsym <= LB - 2 {
        let lit: u8 = kani::any();
        s.push_lit(lit);
        c.push_lit(lit);
        let mut a = s.iter();
        let mut b = c.iter();
        let mut k = 0;
        while k < LB {
            assert!(a.next() == b.next(), "a symbol tallied through the copy is the symbol tallied through the original");
            k += 1;
        }
    }
    kani::cover!(nsym == LB - 1);
    kani::cover!(nsym == LB - 2);
}
