//! KD3 — the "end of input" tail of the block functions (deflate_fast / medium / slow / huff / rle): what they owe
//! `deflate()` when everything fed so far has been consumed and a flush was requested (C11, C01, C07).
//! Injected as `crate::deflate::algorithm::verif_kani` (the block functions are private to `algorithm`).
#![allow(dead_code, unused_imports, unused_variables, unused_mut, clippy::all)]
use super::*;
use crate::deflate::verif_kani::*;
use crate::deflate::*;
use core::mem::MaybeUninit;

const WB: usize = 9;
const LB: usize = 8;

static mut T_CALLS: usize = 0;
static mut T_SYMS: usize = 0;
static mut T_LAST: bool = false;
static mut T_BLOCK_LEN: isize = -1;

/// `fill_window` with nothing left to read does nothing the tail depends on.
pub(crate) fn stub_fill_window_nothing_to_read(stream: &mut DeflateStream) {
    assert!(stream.avail_in == 0);
}

/// model of `flush_block_only`: the block takes every tallied symbol and the bytes block_start..strstart, the symbol
/// buffer starts again empty (init_block), the block start moves to strstart; output room is left (avail_out > 0).
pub(crate) fn stub_flush_block_takes_everything(stream: &mut DeflateStream, is_last: bool) {
    unsafe {
        T_CALLS += 1;
        T_SYMS += stream.state.sym_buf.iter().count();
        T_LAST = is_last;
        T_BLOCK_LEN = stream.state.strstart as isize - stream.state.block_start;
    }
    stream.state.sym_buf.clear();
    stream.state.block_start = stream.state.strstart as isize;
}

fn tail<const WHICH: u8>() {
    let mut w = [0u8; 2 << WB];
    let mut p = [0u16; 1 << WB];
    let mut h = [0u16; HASH_SIZE];
    let mut pe = [MaybeUninit::new(0u8); 4 * LB];
    let mut sy = [0u8; 3 * LB];
    let level: i8 = match WHICH {
        0 => 2, // deflate_fast
        1 => 5, // deflate_medium
        _ => 8, // deflate_slow (and huff / rle, which do not look at the level)
    };
    let mut state = typed_state(&mut w, &mut p, &mut h, &mut pe, &mut sy, WB, LB, level, 0, Strategy::Default);
    state.status = Status::Busy;
    state.window_size = 2 << WB;
    state.max_chain_length = 8;
    state.max_lazy_match = 8;
    state.good_match = 8;
    state.nice_match = 16;
    let strstart: usize = kani::any();
    kani::assume(strstart >= 1 && strstart <= 600);
    state.strstart = strstart;
    state.lookahead = 0;
    let block_len: usize = kani::any();
    kani::assume(block_len <= strstart);
    state.block_start = (strstart - block_len) as isize;
    // symbols already tallied for the open block: none, one literal, or a literal and a match
    let tallied: u8 = kani::any();
    kani::assume(tallied <= 2);
    if tallied >= 1 {
        state.sym_buf.push_lit(kani::any());
    }
    if tallied >= 2 {
        state.sym_buf.push_dist(1, 0);
    }
    let deferred: bool = if WHICH == 2 { kani::any() } else { false };
    state.match_available = deferred;
    if deferred {
        state.prev_length = 2;
        kani::assume(block_len >= 1);
    }
    // an open block holds bytes exactly when symbols were tallied for them (or one is deferred)
    kani::assume((block_len == 0) == (tallied == 0 && !deferred));
    let flush = match kani::any::<u8>() % 5 {
        0 => DeflateFlush::PartialFlush,
        1 => DeflateFlush::SyncFlush,
        2 => DeflateFlush::FullFlush,
        3 => DeflateFlush::Block,
        _ => DeflateFlush::Finish,
    };
    let mut stream = typed_stream(unsafe { &mut *(&mut state as *mut State) });
    let mut out = [0u8; 8];
    stream.next_out = out.as_mut_ptr();
    stream.avail_out = 8;
    unsafe {
        T_CALLS = 0;
        T_SYMS = 0;
        T_LAST = false;
        T_BLOCK_LEN = -1;
    }
    let r = match WHICH {
        0 => super::fast::deflate_fast(&mut stream, flush),
        1 => super::medium::deflate_medium(&mut stream, flush),
        2 => super::slow::deflate_slow(&mut stream, flush),
        3 => super::huff::deflate_huff(&mut stream, flush),
        _ => super::rle::deflate_rle(&mut stream, flush),
    };
    // (these hold natively as well, whatever flush_block_only does: a replay decides on them)
    assert!(stream.state.sym_buf.is_empty(), "every tallied symbol has been handed to a block before the flush is reported done");
    assert!(!stream.state.match_available, "no literal is still deferred");
    assert!(stream.state.block_start == strstart as isize, "no byte is left outside a block");
    assert!(matches!(r, BlockState::FinishDone) == matches!(flush, DeflateFlush::Finish));
    assert!(matches!(r, BlockState::FinishDone | BlockState::BlockDone));
    assert!(stream.state.strstart == strstart && stream.state.lookahead == 0);
    assert!(stream.state.insert <= 2 && stream.state.insert <= strstart);
    // (ghost facts recorded by the flush_block_only model)
    let (calls, syms, last, blen) = unsafe { (T_CALLS, T_SYMS, T_LAST, T_BLOCK_LEN) };
    assert!(syms == tallied as usize + deferred as usize, "the blocks took exactly the symbols tallied, the deferred literal included");
    if matches!(flush, DeflateFlush::Finish) {
        assert!(calls == 1 && last, "one block, marked final");
        assert!(blen == block_len as isize);
    } else {
        assert!(calls <= 1 && !last);
        assert!(calls == 1 || (tallied == 0 && !deferred));
    }
    kani::cover!((deferred || WHICH != 2) && calls == 1 && !last);
    kani::cover!(calls == 0);
    core::mem::forget(stream);
    core::mem::forget(state);
}

macro_rules! tail_harness {
    ($name:ident, $which:expr) => {
        #[kani::proof]
        #[kani::unwind(5)]
        #[kani::stub(core::fmt::write, stub_fmt_write)]
        #[kani::stub(core::panicking::panic_nounwind, stub_pn)]
        #[kani::stub(core::panicking::panic_nounwind_fmt, stub_pnf)]
        #[kani::stub(<[u16]>::fill, stub_fill_zero)]
        #[kani::stub(<[u8]>::fill, stub_fill_zero)]
        #[kani::stub(crate::deflate::fill_window, stub_fill_window_nothing_to_read)]
        #[kani::stub(crate::deflate::flush_block_only, stub_flush_block_takes_everything)]
        fn $name() {
            tail::<$which>();
        }
    };
}
tail_harness!(kd3_tail_fast, 0);
tail_harness!(kd3_tail_medium, 1);
tail_harness!(kd3_tail_slow, 2);
tail_harness!(kd3_tail_huff, 3);
tail_harness!(kd3_tail_rle, 4);
