//! Kani harnesses for the private match bookkeeping of `deflate_medium` (injected as
//! `crate::deflate::algorithm::medium::verif_kani`; the parent forbids unsafe code, none is used here).
#![allow(dead_code, unused_imports, unused_variables, unused_mut, clippy::all)]

use super::*;
use crate::verif_kani::*;

/// `fizzle_matches` moves the boundary between the current match and the one found right behind it.  One call from an
/// arbitrary pair of matches that satisfies what `deflate_medium` guarantees at the call site (adjacent, `next` is a real
/// match of at least 3 bytes inside the window and within `max_dist`): afterwards the pair still tiles the same bytes,
/// `next` is still a real match at the same distance, its length still fits the length code (<= 258) and `current` is either
/// untouched or reduced to at most one literal.
fn fizzle_pair<const W: usize, const CL_MAX: u16, const NL_MIN: u16, const NL_MAX: u16, const SEMANTIC: bool>() {
    let window: [u8; W] = kani::any();
    let cs: u16 = kani::any();
    let cl: u16 = kani::any();
    let cm: u16 = kani::any();
    let nl: u16 = kani::any();
    let nm: u16 = kani::any();
    kani::assume(cl >= 1 && cl <= CL_MAX);
    kani::assume((cs as usize) < W);
    let ns = cs + cl;
    kani::assume(nl >= NL_MIN && nl <= NL_MAX);
    kani::assume(ns as usize + nl as usize <= W);
    kani::assume(nm >= 1 && nm < ns);
    let max_dist: usize = kani::any();
    kani::assume((ns - nm) as usize <= max_dist && max_dist <= 32768 - 262);
    if cl >= 3 {
        kani::assume(cm >= 1 && cm < cs);
    }
    if SEMANTIC {
        let mut i = 0usize;
        while i < NL_MAX as usize {
            if i < nl as usize {
                kani::assume(window[nm as usize + i] == window[ns as usize + i]);
            }
            i += 1;
        }
    }
    let mut c = Match { match_start: cm, match_length: cl, strstart: cs, orgstart: cs };
    let mut n = Match { match_start: nm, match_length: nl, strstart: ns, orgstart: ns };
    fizzle_matches(&window, max_dist, &mut c, &mut n);

    assert!(n.match_length <= 258, "a match longer than 258 has no length code");
    assert!(n.match_length >= nl);
    assert!(c.strstart == cs && c.match_start == cm);
    assert!(c.strstart + c.match_length == n.strstart, "the two matches still tile the same bytes");
    assert!(n.strstart + n.match_length == ns + nl);
    assert!(n.match_start >= 1 && n.strstart - n.match_start == ns - nm, "same distance");
    assert!(c.match_length == cl || c.match_length <= 1);
    assert!(n.orgstart == ns || n.orgstart == ns + 1);
    if SEMANTIC {
        let mut i = 0usize;
        while i < (NL_MAX + CL_MAX) as usize {
            if i < n.match_length as usize {
                assert!(window[n.match_start as usize + i] == window[n.strstart as usize + i], "next is still a match");
            }
            i += 1;
        }
    }
    kani::cover!(n.match_length > nl);
    kani::cover!(n.match_length == nl);
}

#[kani::proof]
#[kani::unwind(16)]
#[kani::stub(core::fmt::write, stub_fmt_write)]
#[kani::stub(core::panicking::panic_nounwind, stub_pn)]
#[kani::stub(core::panicking::panic_nounwind_fmt, stub_pnf)]
fn kd3_fizzle_matches_small() {
    fizzle_pair::<24, 6, 3, 6, true>();
}

#[kani::proof]
#[kani::unwind(8)]
#[kani::stub(core::fmt::write, stub_fmt_write)]
#[kani::stub(core::panicking::panic_nounwind, stub_pn)]
#[kani::stub(core::panicking::panic_nounwind_fmt, stub_pnf)]
fn kd3_fizzle_matches_long_next() {
    fizzle_pair::<600, 5, 250, 258, false>();
}
