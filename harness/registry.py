"""Registry of harnesses: which property each one serves, tier, resources, and what it encodes (for evidence)."""

HARNESSES = {}
ENGINE_B = []
OUTSIDE = {}

STD_STUBS = ["core::panicking::panic_nounwind{,_fmt} -> plain panic! (keeps the check, drops std's panic runtime)",
             "core::fmt::write -> Ok(()) (formatting is never the subject)"]

D = "zlib-rs/src/deflate/verif_kani"
I = "zlib-rs/src/inflate/verif_kani"


def h(name, file, path, props, **kw):
    spec = dict(file=file, path=path, props=props)
    spec.update(kw)
    spec.setdefault("assumptions", [])
    spec["assumptions"] = list(spec["assumptions"]) + STD_STUBS
    HARNESSES[name] = spec


# ---------------------------------------------------------------- deflate: KD1 bit writer
h("kd1_bitwriter_pack", D + "/kd1_bitwriter.rs", "deflate::verif_kani::kd1_bitwriter", ["C05", "C01"],
  kernel="KD1", expect_s=15, timeout=300,
  functions=["BitWriter::send_bits", "BitWriter::send_bits_overflow", "BitWriter::flush_bits", "BitWriter::emit_align",
             "Pending::extend"],
  bounds="any valid (bit_buffer, bits_valid<=63); 4 emissions of 1..=32 bits with any value; then align or flush; pending 48 B",
  assumptions=["register invariant: bits above bits_valid are zero (re-asserted after every emission)"])
h("kd1_emitters_one_step", D + "/kd1_bitwriter.rs", "deflate::verif_kani::kd1_bitwriter", ["C05", "C01", "C11"],
  kernel="KD1", expect_s=60, timeout=900,
  functions=["BitWriter::emit_tree", "emit_lit", "emit_dist_static", "emit_dist", "emit_end_block", "align", "encode_len",
             "encode_dist", "State::d_code"],
  bounds="any valid register; one emission of any kind: any literal, any (len 3..=258, dist 1..=32768), any block type/last flag",
  assumptions=["oracle: RFC 1951 3.2.3/3.2.5/3.2.6 tables transcribed in the harness"])
h("kd1_bitwriter_full_register", D + "/kd1_bitwriter.rs", "deflate::verif_kani::kd1_bitwriter", ["C05", "C06"],
  kernel="KD1", expect_s=5, timeout=200,
  functions=["BitWriter::send_bits", "send_bits_overflow"], bounds="bits_valid == 64, any buffer, any 1..=32-bit value")
h("kd10_prime", D + "/kd1_bitwriter.rs", "deflate::verif_kani::kd1_bitwriter", ["C06", "C16", "C05"],
  kernel="KD10", expect_s=40, timeout=600,
  functions=["deflate::prime", "BitWriter::flush_bits"],
  bounds="every i32 bits, every i32 value, any valid register; typed state w_size 16, pending 32 B")
# ---------------------------------------------------------------- deflate: KD2 static tables
h("kd2_static_encode_matches_rfc", D + "/kd2_tables.rs", "deflate::verif_kani::kd2_tables", ["C05", "C01"],
  kernel="KD2", expect_s=5, timeout=200,
  functions=["encode_len", "encode_dist", "State::d_code", "trees_tbl::{STATIC_LTREE,STATIC_DTREE,STATIC_LTREE_ENCODINGS,LENGTH_CODE,DIST_CODE,BASE_LENGTH,BASE_DIST}",
             "StaticTreeDesc::{EXTRA_LBITS,EXTRA_DBITS}"],
  bounds="all 256 x 32768 (length, distance) pairs (exhaustive over the domain, decided symbolically)")
h("kd2_static_ltree_is_rfc_fixed_code", D + "/kd2_tables.rs", "deflate::verif_kani::kd2_tables", ["C05", "C01"],
  kernel="KD2", expect_s=2, timeout=200,
  functions=["trees_tbl::STATIC_LTREE", "trees_tbl::STATIC_DTREE", "StaticTreeDesc::BL_ORDER"],
  bounds="all 288 literal/length symbols, 30 distance symbols, 19 code-length positions")

# ---------------------------------------------------------------- inflate: KI1 bit reader
h("ki1_bitreader_split", I + "/ki1_bitreader.rs", "inflate::verif_kani::ki1_bitreader", ["C04", "C02", "C15"],
  kernel="KI1", expect_s=8, timeout=300,
  functions=["BitReader::new", "need_bits", "pull_byte", "update_slice", "bits", "hold"],
  bounds="6 symbolic bytes, symbolic cut 0..=6, need 0..=32 bits")
h("ki1_bitreader_refill_model", I + "/ki1_bitreader.rs", "inflate::verif_kani::ki1_bitreader", ["C02", "C15", "C04"],
  kernel="KI1", expect_s=30, timeout=600,
  functions=["BitReader::refill", "prime", "drop_bits", "return_unused_bytes", "need_bits", "next_byte_boundary", "advance"],
  bounds="18-byte buffer with symbolic length, 0..=7 primed bits, one refill, drop <= 48 bits")
# ---------------------------------------------------------------- inflate: KI2 writer
h("ki2_copy_match_twin_small", I + "/ki2_writer.rs", "inflate::verif_kani::ki2_writer", ["C02", "C10"],
  kernel="KI2", expect_s=120, timeout=1200, weight=2,
  functions=["Writer::copy_match_with_features::<NONE>", "::<AVX2>", "copy_match_help::<8>", "::<32>", "copy_chunked_within",
             "copy_chunk_unchecked", "load_chunk", "store_chunk"],
  bounds="capacity <= 16 inside a canaried 24-byte array, len <= 6, every (filled, offset, len) under the caller precondition offset <= filled",
  assumptions=["caller precondition: 1 <= offset <= filled, len <= capacity - filled (established by KI5 Match-step harnesses)"])
h("ki2_copy_match_twin_wide", I + "/ki2_writer.rs", "inflate::verif_kani::ki2_writer", ["C02", "C10"],
  kernel="KI2", tier="thorough", expect_s=1500, timeout=3600, weight=4, mem_gb=24,
  functions=["Writer::copy_match_with_features::<NONE>", "::<AVX2>"],
  bounds="capacity <= 48 inside a canaried 56-byte array (so the N=32 chunked path is taken), len <= 12")
h("ki2_extend_from_window_twin", I + "/ki2_writer.rs", "inflate::verif_kani::ki2_writer", ["C02", "C10"],
  kernel="KI2", expect_s=60, timeout=900,
  functions=["Writer::extend_from_window_with_features::<NONE>", "::<AVX2>", "extend_from_window_help::<8>", "::<32>"],
  bounds="window 8 + 64 padding, capacity <= 16 in a canaried array, every (filled, from, len) inside the window")
h("ki2_copy_match_back", I + "/ki2_writer.rs", "inflate::verif_kani::ki2_writer", ["C02", "C19"],
  kernel="KI2", expect_s=30, timeout=600,
  functions=["Writer::copy_match_back"], bounds="capacity 16 in a canaried array, every (filled, offset <= filled, len)")
# ---------------------------------------------------------------- inflate: KI3 window
h("ki3_window_extend_ring", I + "/ki3_window.rs", "inflate::verif_kani::ki3_window", ["C02", "C04", "C10", "C13"],
  kernel="KI3", expect_s=20, timeout=600,
  functions=["Window::extend"], bounds="W = 8 (+64 padding), two extends with symbolic slices <= 12 bytes each, no checksum")
h("ki3_window_extend_adler", I + "/ki3_window.rs", "inflate::verif_kani::ki3_window", ["C08", "C02"],
  kernel="KI3", expect_s=120, timeout=1200, weight=2,
  functions=["Window::extend", "adler32::adler32", "adler32::adler32_fold_copy", "adler32::generic::*"],
  bounds="W = 4, two extends <= 6 bytes each, any valid running Adler-32; reference = RFC 1950 recurrence")
h("ki3_get_dictionary_order", I + "/ki3_window.rs", "inflate::verif_kani::ki3_window", ["C13", "C02"],
  kernel="KI3", expect_s=30, timeout=600,
  functions=["inflate::get_dictionary", "Window::extend"], bounds="W = 8, any history from two extends <= 12 bytes each")

# ---------------------------------------------------------------- inflate: KI5e trailer
TRAILER_FNS = ["State::dispatch (modes Check, Length, Done)", "BitReader::need_bits", "zswap32"]
h("ki5e_check_zlib", I + "/ki5_trailer.rs", "inflate::verif_kani::ki5_trailer", ["C08", "C03", "C02"],
  kernel="KI5e", expect_s=20, timeout=600,
  functions=TRAILER_FNS + ["adler32::adler32 (generic)"],
  bounds="start mode Check, wrap in {1,5}, any valid running Adler-32, 2 symbolic output bytes of this call, 0..=5 symbolic trailer bytes",
  assumptions=["inflate_table stubbed by assume(false): unreachable from Check"])
h("ki5e_length_gzip", I + "/ki5_trailer.rs", "inflate::verif_kani::ki5_trailer", ["C08", "C03", "C02"],
  kernel="KI5e", expect_s=15, timeout=600, functions=TRAILER_FNS,
  bounds="start mode Length, wrap in {2,6}, any gzip flags word, any 64-bit total, 0..=5 trailer bytes")
h("ki5e_check_gzip", I + "/ki5_trailer.rs", "inflate::verif_kani::ki5_trailer", ["C08", "C03"],
  kernel="KI5e", expect_s=120, timeout=1200, weight=2,
  functions=TRAILER_FNS + ["Crc32Fold::fold", "Crc32Fold::finish", "crc32::braid::crc32_braid (generic)"],
  bounds="start mode Check (gzip), any 32-bit running CRC, 2 symbolic output bytes, 8 symbolic trailer bytes; reference = bitwise CRC-32")
h("ki5e_terminal_modes", I + "/ki5_trailer.rs", "inflate::verif_kani::ki5_trailer", ["C02", "C16", "C04"],
  kernel="KI5e", expect_s=10, timeout=300, functions=["State::dispatch (modes Done, Bad, Mem, Sync)"],
  bounds="4 symbolic input bytes, any wrap")
