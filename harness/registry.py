"""Registry of harnesses: which property each one serves, tier, resources, and what it encodes (for evidence)."""

HARNESSES = {}
ENGINE_B = []
OUTSIDE = {}

STD_STUBS = ["core::panicking::panic_nounwind{,_fmt} -> plain panic! (keeps the check, drops std's panic runtime)",
             "core::fmt::write -> Ok(()) (formatting is never the subject)"]

D = "zlib-rs/src/deflate/verif_kani"
I = "zlib-rs/src/inflate/verif_kani"


def DISPATCH_US(main, inner=2, need_bits=6):
    """standard per-loop bounds for decoder-step harnesses that go through State::dispatch: the decoder's main loop gets
    `main` iterations, every loop inside the (mostly infeasible) arms `inner`, need_bits enough for 32 bits.  Unwinding
    assertions stay on, so a bound that is too small for a feasible path fails the harness instead of truncating it."""
    return [("State::<'_>::dispatch", None, inner),
            ("State::<'_>::dispatch", ("zlib-rs/src/inflate.rs", "let ret = 'label: loop {"), main),
            ("BitReader::<'_>::need_bits", None, need_bits)]


def h(name, file, path, props, **kw):
    spec = dict(file=file, path=path, props=props)
    spec.update(kw)
    spec.setdefault("assumptions", [])
    spec["assumptions"] = list(spec["assumptions"]) + STD_STUBS
    HARNESSES[name] = spec


# ---------------------------------------------------------------- deflate: KD1 bit writer
h("kd1_bitwriter_pack", D + "/kd1_bitwriter.rs", "deflate::verif_kani::kd1_bitwriter", ["C05", "C01"],
  kernel="KD1", expect_s=15, timeout=300,
  functions=["BitWriter::send_bits", "BitWriter::send_bits_overflow", "BitWriter::flush_bits", "BitWriter::emit_align",
             "Pending::extend"],
  bounds="any valid (bit_buffer, bits_valid<=63); 4 emissions of 1..=32 bits with any value; then align or flush; pending 48 B",
  assumptions=["register invariant: bits above bits_valid are zero (re-asserted after every emission)"])
h("kd1_emitters_one_step", D + "/kd1_bitwriter.rs", "deflate::verif_kani::kd1_bitwriter", ["C05", "C01", "C11"],
  kernel="KD1", expect_s=60, timeout=900,
  functions=["BitWriter::emit_tree", "emit_lit", "emit_dist_static", "emit_dist", "emit_end_block", "align", "encode_len",
             "encode_dist", "State::d_code"],
  bounds="any valid register; one emission of any kind: any literal, any (len 3..=258, dist 1..=32768), any block type/last flag",
  assumptions=["oracle: RFC 1951 3.2.3/3.2.5/3.2.6 tables transcribed in the harness"])
h("kd1_bitwriter_full_register", D + "/kd1_bitwriter.rs", "deflate::verif_kani::kd1_bitwriter", ["C05", "C06"],
  kernel="KD1", expect_s=5, timeout=200,
  functions=["BitWriter::send_bits", "send_bits_overflow"], bounds="bits_valid == 64, any buffer, any 1..=32-bit value")
h("kd10_prime", D + "/kd1_bitwriter.rs", "deflate::verif_kani::kd1_bitwriter", ["C06", "C16", "C05"],
  kernel="KD10", expect_s=40, timeout=600,
  functions=["deflate::prime", "BitWriter::flush_bits"],
  bounds="every i32 bits, every i32 value, any valid register; typed state w_size 16, pending 32 B")
# ---------------------------------------------------------------- deflate: KD2 static tables
h("kd2_static_encode_matches_rfc", D + "/kd2_tables.rs", "deflate::verif_kani::kd2_tables", ["C05", "C01"],
  kernel="KD2", expect_s=5, timeout=200,
  functions=["encode_len", "encode_dist", "State::d_code", "trees_tbl::{STATIC_LTREE,STATIC_DTREE,STATIC_LTREE_ENCODINGS,LENGTH_CODE,DIST_CODE,BASE_LENGTH,BASE_DIST}",
             "StaticTreeDesc::{EXTRA_LBITS,EXTRA_DBITS}"],
  bounds="all 256 x 32768 (length, distance) pairs (exhaustive over the domain, decided symbolically)")
h("kd2_static_ltree_is_rfc_fixed_code", D + "/kd2_tables.rs", "deflate::verif_kani::kd2_tables", ["C05", "C01"],
  kernel="KD2", expect_s=2, timeout=200,
  functions=["trees_tbl::STATIC_LTREE", "trees_tbl::STATIC_DTREE", "StaticTreeDesc::BL_ORDER"],
  bounds="all 288 literal/length symbols, 30 distance symbols, 19 code-length positions")

# ---------------------------------------------------------------- inflate: KI1 bit reader
h("ki1_bitreader_split", I + "/ki1_bitreader.rs", "inflate::verif_kani::ki1_bitreader", ["C04", "C02", "C15"],
  kernel="KI1", expect_s=8, timeout=300,
  functions=["BitReader::new", "need_bits", "pull_byte", "update_slice", "bits", "hold"],
  bounds="6 symbolic bytes, symbolic cut 0..=6, need 0..=32 bits")
h("ki1_bitreader_refill_model", I + "/ki1_bitreader.rs", "inflate::verif_kani::ki1_bitreader", ["C02", "C15", "C04"],
  kernel="KI1", expect_s=30, timeout=600,
  functions=["BitReader::refill", "prime", "drop_bits", "return_unused_bytes", "need_bits", "next_byte_boundary", "advance"],
  bounds="18-byte buffer with symbolic length, 0..=7 primed bits, one refill, drop <= 48 bits")
# ---------------------------------------------------------------- inflate: KI2 writer
h("ki2_copy_match_twin_small", I + "/ki2_writer.rs", "inflate::verif_kani::ki2_writer", ["C02", "C10"],
  kernel="KI2", expect_s=120, timeout=1200, weight=2,
  functions=["Writer::copy_match_with_features::<NONE>", "::<AVX2>", "copy_match_help::<8>", "::<32>", "copy_chunked_within",
             "copy_chunk_unchecked", "load_chunk", "store_chunk"],
  bounds="capacity <= 16 inside a canaried 24-byte array, len <= 6, every (filled, offset, len) under the caller precondition offset <= filled",
  assumptions=["caller precondition: 1 <= offset <= filled, len <= capacity - filled (established by KI5 Match-step harnesses)"])
# ki2_copy_match_twin_wide (capacity <= 48 so that the N = 32 chunked path is taken, len <= 12): out of memory at 24 GB in the full
# thorough run (332 s): NOT registered.  The N = 32 path is covered by ki2_extend_from_window_twin and, for copy_match, only at the
# widths ki2_copy_match_twin_small reaches.
h("ki2_extend_from_window_twin", I + "/ki2_writer.rs", "inflate::verif_kani::ki2_writer", ["C02", "C10"],
  kernel="KI2", expect_s=60, timeout=900,
  functions=["Writer::extend_from_window_with_features::<NONE>", "::<AVX2>", "extend_from_window_help::<8>", "::<32>"],
  bounds="window 8 + 64 padding, capacity <= 16 in a canaried array, every (filled, from, len) inside the window")
h("ki2_copy_match_back", I + "/ki2_writer.rs", "inflate::verif_kani::ki2_writer", ["C02", "C19"],
  kernel="KI2", expect_s=30, timeout=600,
  functions=["Writer::copy_match_back"], bounds="capacity 16 in a canaried array, every (filled, offset <= filled, len)")
# ---------------------------------------------------------------- inflate: KI3 window
h("ki3_window_extend_ring", I + "/ki3_window.rs", "inflate::verif_kani::ki3_window", ["C02", "C04", "C10", "C13"],
  kernel="KI3", expect_s=20, timeout=600,
  functions=["Window::extend"], bounds="W = 8 (+64 padding), two extends with symbolic slices <= 12 bytes each, no checksum")
# ki3_window_extend_adler (real adler32 fused into the window copy, W = 4): did not finish in 1200 s; the fused-copy path is covered by
# kc9_adler_piecewise_fold_copy (adler32_fold_copy) + ki3_window_extend_ring (ring) + ki7 (which bytes are folded): not registered
h("ki3_window_extend_checksum_order", I + "/ki3_window.rs", "inflate::verif_kani::ki3_window", ["C08", "C04"], kernel="KI3", expect_s=120, timeout=1200, weight=2,
  functions=["Window::extend (update_checksum, zlib and gzip arms, len >= wsize split, wrap)", "Crc32Fold::fold", "Crc32Fold::fold_copy", "adler32_fold_copy"],
  bounds="4-byte window, two consecutive slices of 0..=7 symbolic bytes, any running check value, zlib or gzip",
  assumptions=["crc32_braid / adler32 -> cheap order-sensitive byte-wise fold (which bytes, which order, which start value is the subject; C09 decides the real kernels)"])
h("ki3_get_dictionary_order", I + "/ki3_window.rs", "inflate::verif_kani::ki3_window", ["C13", "C02"],
  kernel="KI3", expect_s=30, timeout=600,
  functions=["inflate::get_dictionary", "Window::extend"], bounds="W = 8, any history from two extends <= 12 bytes each")

# ---------------------------------------------------------------- inflate: KI5e trailer
TRAILER_FNS = ["State::dispatch (modes Check, Length, Done)", "BitReader::need_bits", "zswap32"]
h("ki5e_check_zlib", I + "/ki5_trailer.rs", "inflate::verif_kani::ki5_trailer", ["C08", "C03", "C02"],
  kernel="KI5e", expect_s=20, timeout=600,
  functions=TRAILER_FNS + ["adler32::adler32 (generic)"],
  bounds="start mode Check, wrap in {1,5}, any valid running Adler-32, 2 symbolic output bytes of this call, 0..=5 symbolic trailer bytes",
  assumptions=["inflate_table stubbed by assume(false): unreachable from Check"])
h("ki5e_length_gzip", I + "/ki5_trailer.rs", "inflate::verif_kani::ki5_trailer", ["C08", "C03", "C02"],
  kernel="KI5e", expect_s=15, timeout=600, functions=TRAILER_FNS,
  bounds="start mode Length, wrap in {2,6}, any gzip flags word, any 64-bit total, 0..=5 trailer bytes")
h("ki5e_check_gzip", I + "/ki5_trailer.rs", "inflate::verif_kani::ki5_trailer", ["C08", "C03"],
  kernel="KI5e", expect_s=120, timeout=1200, weight=2,
  functions=TRAILER_FNS + ["Crc32Fold::fold", "Crc32Fold::finish"],
  bounds="start mode Check (gzip), any 32-bit running CRC, 2 symbolic output bytes, 8 symbolic trailer bytes",
  assumptions=["crc32::braid::crc32_braid -> byte-wise fold model (braid == CRC-32 is C09's subject)"])
h("ki5e_terminal_modes", I + "/ki5_trailer.rs", "inflate::verif_kani::ki5_trailer", ["C02", "C16", "C04"],
  kernel="KI5e", expect_s=10, timeout=300, functions=["State::dispatch (modes Done, Bad, Mem, Sync)"],
  bounds="4 symbolic input bytes, any wrap")

# ---------------------------------------------------------------- inflate: KI5a/b headers
HDR = I + "/ki5_header.rs"
HP = "inflate::verif_kani::ki5_header"
MODELCRC = ["crc32::crc32 -> cheap byte-wise fold (rotl5 ^ byte): sound for 'which bytes are folded, in which order'; that the real crc32 equals CRC-32 is C09's harnesses",
            "inflate_table stubbed by assume(false): unreachable from header modes"]
NOCRC = ["crc32::crc32 -> nondeterministic value (over-approximation; the checksum value is not the subject here)",
         "inflate_table stubbed by assume(false): unreachable from header modes"]
h("ki5b_fixed_part", HDR, HP, ["C20", "C02", "C03", "C08"], kernel="KI5b", expect_s=60, timeout=900,
  functions=["State::dispatch (modes Flags, Time, Os, ExLen, Extra, Name, Comment, HCrc, Type)"],
  bounds="start mode Flags, 0..=10 symbolic bytes, wrap in {2,6}, with and without a capture struct, flush = Block, any running header CRC",
  assumptions=MODELCRC)
h("ki5b_extra", HDR, HP, ["C20", "C02"], kernel="KI5b", expect_s=60, timeout=900,
  functions=["State::dispatch (mode Extra ...)"],
  bounds="XLEN <= 9, any progress through the field, 0..=6 input bytes, extra_max <= 4 in an 8-byte canaried buffer or NULL",
  assumptions=NOCRC + ["pre-state invariant: remaining <= extra_len"])
for _n in ("name", "comment"):
    h("ki5b_%s_entry_length" % _n, HDR, HP, ["C20", "C02", "C14"], kernel="KI5b", expect_s=30, timeout=600, unwindset=DISPATCH_US(3),
      functions=["State::dispatch (mode %s with the field absent)" % ("Extra" if _n == "name" else "Name")],
      bounds="any stale State::length, %s, FHCRC either way, no input (suspends at the next field)" % ("FEXTRA absent + FNAME present" if _n == "name" else "FNAME absent + FCOMMENT present"),
      assumptions=NOCRC)
h("ki5b_name", HDR, HP, ["C20", "C02", "C08"], kernel="KI5b", expect_s=40, timeout=900,
  functions=["State::dispatch (mode Name ...)"],
  bounds="0..=6 input bytes, name_max <= 4 in an 8-byte canaried buffer or NULL, any progress already <= name_max",
  assumptions=MODELCRC + ["pre-state invariant: bytes already stored <= name_max (holds when the capture struct is installed before the header is parsed, as zlib.h requires)"])
h("ki5b_comment", HDR, HP, ["C20", "C02"], kernel="KI5b", expect_s=40, timeout=900,
  functions=["State::dispatch (mode Comment ...)"],
  bounds="0..=6 input bytes, comm_max <= 4 in an 8-byte canaried buffer or NULL", assumptions=MODELCRC)
h("ki5b_hcrc", HDR, HP, ["C08", "C20", "C03", "C02"], kernel="KI5b", expect_s=15, timeout=600,
  functions=["State::dispatch (mode HCrc, Type)"],
  bounds="any running header CRC, 0..=3 input bytes, wrap in {2,6}, FHCRC set or clear")
# wrap is concrete per instance and at most the two header bytes are supplied: with a symbolic wrap (the first version of this
# harness), or with more input, the decoder mode after Head is symbolic among the zlib chain, the gzip chain and Bad, and CBMC
# needs 14..40+ GB.  What follows the header starts from its own concrete mode: ki5a_dictid_* (zlib + FDICT), ki5b_* (gzip).
for _w in (1, 2, 3, 5, 6, 7):
    for _n in (0, 1, 2, 3, 5, 6):
        if _n > 2:
            continue  # what follows the two header bytes starts from its own mode: ki5a_dictid_* (zlib), ki5b_* (gzip)
        h("ki5a_head_w%d_n%d" % (_w, _n), HDR, HP, ["C03", "C13", "C02"] if _w & 1 else ["C03", "C02"], kernel="KI5a", expect_s=250 if _w in (3, 7) else 30, timeout=1800, weight=3 if _w in (3, 7) else 1,
          mem_gb=28 if _w in (3, 7) else 12, rss_gb=14 if _w in (3, 7) else 2, unwindset=DISPATCH_US(4),
          functions=["State::dispatch (modes Head, DictId, Dict, Flags, Type)"],
          bounds="%d input bytes (concrete count, symbolic values), wrap = %d (concrete), wbits in {0, 8..=15}, flush = Block" % (_n, _w), assumptions=NOCRC)
for _n, _nm in ((3, "n3"), (4, "n4"), (4, "n4_have")):
    h("ki5a_dictid_" + _nm, HDR, HP, ["C13", "C03", "C04"], kernel="KI5a", expect_s=30, timeout=600, unwindset=DISPATCH_US(4),
      functions=["State::dispatch (modes DictId, Dict, Type)"],
      bounds="%d symbolic input bytes, wrap 1 or 5, HAVE_DICT %s, any running checksum, flush = Block" % (_n, "set" if "have" in _nm else "clear"), assumptions=NOCRC)
h("ki5a_set_dictionary", HDR, HP, ["C13", "C16", "C02"], kernel="KI5a", expect_s=120, timeout=1200, weight=2,
  functions=["inflate::set_dictionary", "adler32::adler32", "Window::extend", "inflate::get_dictionary"],
  bounds="dictionary <= 6 symbolic bytes, W = 4, wrap in {0,1,5}, Dict or non-Dict mode, any demanded id")

# ---------------------------------------------------------------- inflate: KI5c block layer
BLK = I + "/ki5_blocks.rs"
BP = "inflate::verif_kani::ki5_blocks"
STEP_ASSUME = ["inflate_table stubbed by assume(false) (dynamic blocks outside this harness)",
               "inflate_fast_help behind a checked stub: reaching it fails the harness",
               "checked stubs (panic if reached) for callees the harness bounds make unreachable: Writer::copy_match, Writer::extend_from_window, <[u16]>::fill",
               "block-layer / header / trailer harnesses: State::len_and_friends -> contract stub 'suspends at once' (the symbol decoder is KI5d's subject)"]
for _nb, _ni, _tier in [(0, 0, "thorough"), (1, 0, "thorough"), (2, 0, "quick"), (3, 0, "quick"), (4, 0, "thorough"), (5, 0, "thorough"),
                        (6, 0, "thorough"), (7, 0, "quick"), (0, 1, "quick"), (1, 1, "thorough")]:
    # the instances that pull a byte from the input peak at ~16 GB (measured; 460 s): they get a higher cap, a memory reservation in
    # the scheduler, and run in the thorough tier only
    h("ki5c_typedo_b%d_i%d" % (_nb, _ni), BLK, BP, ["C03", "C02", "C04"], kernel="KI5c", tier=_tier, expect_s=500 if _ni else 120, timeout=2400 if _ni else 1200,
      weight=4 if _ni else 2, mem_gb=30 if _ni else 16, rss_gb=20 if _ni else 4,
      unwindset=DISPATCH_US(4),
      functions=["State::dispatch (modes TypeDo, Stored, Len_, Len, Table, Check, Length, Done)"],
      bounds="%d bits in the register + %d input byte(s) (concrete counts, symbolic values), any flush mode, last-block flag set or clear" % (_nb, _ni),
      assumptions=STEP_ASSUME)
h("ki5c_stored", BLK, BP, ["C03", "C02", "C15", "C04", "C01"], kernel="KI5c", expect_s=60, timeout=900,
  functions=["State::dispatch (modes Stored, CopyBlock, Type, TypeDo, Check, Length, Done)", "Writer::extend", "BitReader::next_byte_boundary"],
  bounds="0..=7 stale bits, 0..=8 input bytes (LEN, NLEN, <= 4 data), output capacity 0..=4 in a canaried array, flush in {NoFlush, Block}, final block",
  assumptions=STEP_ASSUME)
h("ki5c_stored_trees", BLK, BP, ["C04", "C03"], kernel="KI5c", expect_s=40, timeout=900,
  functions=["State::dispatch (mode Stored under flush = Trees)"],
  bounds="0..=7 stale bits, 4..=8 input bytes, any LEN/NLEN, last-block flag set or clear; one call; composes with ki5c_copyblock_resume (any remaining length)",
  assumptions=STEP_ASSUME)
h("ki5c_copyblock_resume", BLK, BP, ["C15", "C02", "C04"], kernel="KI5c", expect_s=40, timeout=900,
  functions=["State::dispatch (mode CopyBlock)"],
  bounds="any remaining length <= 65535, 0..=6 input bytes, output capacity 0..=6 in a canaried array", assumptions=STEP_ASSUME)
h("ki5c_table", BLK, BP, ["C03", "C02"], kernel="KI5c", expect_s=30, timeout=900,
  functions=["State::dispatch (modes Table, LenLens)"], bounds="<= 16 bits available from 0..=7 primed bits + 0..=2 bytes",
  assumptions=STEP_ASSUME)
h("ki5c_lenlens_order", BLK, BP, ["C03", "C02", "C04"], kernel="KI5c", expect_s=30, timeout=900,
  functions=["State::dispatch (mode LenLens)"], bounds="any HCLEN, any progress with >= 6 lengths outstanding, 2 input bytes",
  assumptions=STEP_ASSUME)
# ---------------------------------------------------------------- inflate: KI5d symbols
SYM = I + "/ki5_symbols.rs"
SP = "inflate::verif_kani::ki5_symbols"
h("ki5d_len_step", SYM, SP, ["C03", "C02", "C04"], kernel="KI5d", expect_s=60, timeout=900,
  functions=["State::dispatch (mode Len)", "State::len_and_friends (modes Len, Lit, LenExt, Dist)", "inffixed_tbl::LENFIX"],
  bounds="fixed tables, 0..=9 primed bits of any value, no input, output capacity <= 3 with 0..=cap already written",
  assumptions=STEP_ASSUME + ["oracle: RFC 1951 3.2.5/3.2.6 reference decoder in the harness"])
h("ki5d_dist_step_dispatch", SYM, SP, ["C03", "C02", "C04"], kernel="KI5d", expect_s=350, timeout=1800, weight=3, mem_gb=34, rss_gb=27,
  unwindset=DISPATCH_US(5),
  functions=["State::dispatch (modes LenExt, Dist, DistExt, Match)", "inffixed_tbl::DISTFIX"],
  bounds="start in LenExt/Dist/DistExt with any carried registers, 0..=23 primed bits, no input, writer full (step ends in Match before any copy)",
  assumptions=STEP_ASSUME)
h("ki5d_dist_step_friends", SYM, SP, ["C03", "C02", "C04"], kernel="KI5d", expect_s=120, timeout=1200, weight=2,
  functions=["State::len_and_friends (modes LenExt, Dist, DistExt, Match)"],
  bounds="same as ki5d_dist_step_dispatch, through the second copy of the code", assumptions=STEP_ASSUME)
MATCH_ASSUME = STEP_ASSUME + ["Writer::copy_match / extend_from_window -> byte-loop models that assert the caller-side precondition "
                              "(offset <= filled, length <= remaining, range inside the window); the real chunked primitives are "
                              "decided equal to that loop by ki2_*_twin", "window ring state (have, next) set directly to any state "
                              "Window::extend reaches (ki3_window_extend_ring)"]
h("ki5d_match_step_dispatch", SYM, SP, ["C02", "C03", "C04"], kernel="KI5d", expect_s=200, timeout=1800, weight=2, mem_gb=16,
  unwindset=DISPATCH_US(3, inner=5),
  functions=["State::dispatch (mode Match)"],
  bounds="length 1..=258, offset 1..=32768, 0..=4 bytes already written, capacity <= 8 in a canaried 16-byte array, window 8 with any reachable (have, next)",
  assumptions=MATCH_ASSUME)
h("ki5d_match_step_friends", SYM, SP, ["C02", "C03", "C04"], kernel="KI5d", expect_s=200, timeout=1800, weight=2, mem_gb=16,
  unwindset=[("State::<'_>::len_and_friends", None, 5), ("BitReader::<'_>::need_bits", None, 6)],
  functions=["State::len_and_friends (mode Match)"], bounds="same as ki5d_match_step_dispatch, second copy of the code",
  assumptions=MATCH_ASSUME)
GUARD_ASSUME = STEP_ASSUME + ["Writer::copy_match / extend_from_window -> contract stubs: assert the caller-side precondition and account for the bytes "
                              "without moving them", "window ring state (have, next) set directly to any state Window::extend reaches"]
h("ki5d_match_guard_dispatch", SYM, SP, ["C02", "C03", "C04"], kernel="KI5d", expect_s=100, timeout=1200, weight=2, mem_gb=16,
  unwindset=DISPATCH_US(3, inner=5),
  functions=["State::dispatch (mode Match: too-far test, window/output split, length and room accounting)"],
  bounds="length 1..=258, offset 1..=32768, 0..=4 bytes already written, capacity <= 8, window 8 with any reachable (have, next)", assumptions=GUARD_ASSUME)
h("ki5d_match_guard_friends", SYM, SP, ["C02", "C03", "C04"], kernel="KI5d", expect_s=100, timeout=1200, weight=2, mem_gb=16,
  unwindset=[("State::<'_>::len_and_friends", None, 5), ("BitReader::<'_>::need_bits", None, 6)],
  functions=["State::len_and_friends (mode Match)"], bounds="same as ki5d_match_guard_dispatch, second copy of the code", assumptions=GUARD_ASSUME)
FS_ARRAYS = ["--max-field-sensitivity-array-size", "2048"]
h("ki5d_dist_long_code_dispatch", SYM, SP, ["C04", "C03", "C02"], kernel="KI5d", expect_s=200, timeout=1800, weight=2, mem_gb=16, cbmc_args=FS_ARRAYS,
  unwindset=DISPATCH_US(3, inner=3) + [("inftrees::inflate_table", None, 520), ("ki5_symbols::install_long_dist_code", None, 12)],
  functions=["State::dispatch (mode Dist: second-level table lookup, DistExt)", "inftrees::inflate_table (concrete lengths)"],
  bounds="dynamic distance code with lengths 1..=9, 10, 10 (second-level table); the nine root bits of a ten-bit code in the register, no input (must suspend intact); then one symbolic byte: tenth bit + extra bits",
  assumptions=["Writer::copy_match / extend_from_window -> unreachable (writer full)", "CBMC --max-field-sensitivity-array-size 2048"])
h("ki5d_dist_long_code_friends", SYM, SP, ["C04", "C03", "C02"], kernel="KI5d", expect_s=200, timeout=1800, weight=2, mem_gb=16, cbmc_args=FS_ARRAYS,
  unwindset=[("State::<'_>::len_and_friends", None, 4), ("BitReader::<'_>::need_bits", None, 6), ("inftrees::inflate_table", None, 520), ("ki5_symbols::install_long_dist_code", None, 12)],
  functions=["State::len_and_friends (mode Dist: second-level table lookup)"], bounds="same as ki5d_dist_long_code_dispatch, other copy of the code",
  assumptions=["Writer::copy_match / extend_from_window -> unreachable (writer full)", "CBMC --max-field-sensitivity-array-size 2048"])
h("ki5d_fixed_tables_are_rfc", SYM, SP, ["C03", "C01", "C05"], kernel="KD2/KI5d", expect_s=5, timeout=300,
  functions=["inffixed_tbl::LENFIX", "inffixed_tbl::DISTFIX"], bounds="all 512 + 32 table indices (exhaustive, decided symbolically)")

for _r in (0, 3, 7, 8, 16):
    h("kd10_prime_room%d" % _r, D + "/kd1_bitwriter.rs", "deflate::verif_kani::kd1_bitwriter", ["C06", "C16"], kernel="KD10", expect_s=60, timeout=900,
      functions=["deflate::prime", "BitWriter::flush_bits", "Pending::extend"],
      bounds="32-byte pending buffer with %d byte(s) of room, any valid bit register, bits 0..=32, any value" % _r)
h("kd11_bound_counts_every_gzip_header_field", D + "/kd10_entry.rs", "deflate::verif_kani::kd10_entry", ["C07", "C20"], kernel="KD11", expect_s=60, timeout=900,
  functions=["deflate::bound (gzip wrapper length)"],
  bounds="gzip stream, any level, source length <= 2^30, every subset of {extra (6 bytes), name (2 chars), comment (4 chars), hcrc of any non-zero value}; compared with the bound of the same stream without a header")
h("kd11_bound_counts_the_dictionary_id", D + "/kd10_entry.rs", "deflate::verif_kani::kd10_entry", ["C07", "C13"], kernel="KD11", expect_s=60, timeout=900,
  functions=["deflate::bound (zlib wrapper length)", "State::header (FDICT flag)"],
  bounds="zlib stream before its header is written, any level, source length <= 2^30, every (strstart, lookahead <= 2) deflateSetDictionary can leave behind in the reduced window; compared with the bound of the same stream without a dictionary and with the FDICT flag State::header computes")
# ---------------------------------------------------------------- deflate: KD4/KD5 dynamic trees at reduced alphabets
TR = D + "/kd4_trees.rs"
TRP = "deflate::verif_kani::kd4_trees"
h("kd4_gen_codes_n5", TR, TRP, ["C05", "C01"], kernel="KD4", expect_s=60, timeout=900,
  functions=["deflate::gen_codes"], bounds="every complete set of code lengths <= 4 over 5 symbols", assumptions=["precondition: Kraft sum == 1 (established by gen_bitlen: kd4_build_tree_*)"])
h("kd4_gen_codes_n8", TR, TRP, ["C05", "C01"], kernel="KD4", expect_s=300, timeout=1800, weight=2,
  functions=["deflate::gen_codes"], bounds="every complete set of code lengths <= 7 over 8 symbols", assumptions=["precondition: Kraft sum == 1"])
def BT_US(k, body="build_tree_bl_instance"):
    return [("Heap::pqdownheap", None, 4), ("Heap::construct_huffman_tree", None, k + 1), ("deflate::build_tree", None, k + 1),
            ("deflate::gen_bitlen", None, 2), ("deflate::gen_bitlen", ("zlib-rs/src/deflate.rs", "for h in heap.heap_max + 1..HEAP_SIZE {"), 2 * k + 1), ("deflate::gen_codes", None, 20), ("Heap::initialize", None, 21),
            ("kd4_trees::" + body, None, 40)]
# k = 5 did not finish in 2400 s (k = 4: 714 s, k = 3: 50 s): not registered
for _k in (2, 3, 4):
    h("kd4_build_tree_bl_k%d" % _k, TR, TRP, ["C05", "C01"], kernel="KD4", expect_s=300, timeout=2400, weight=2, mem_gb=16, unwindset=BT_US(_k),
      functions=["deflate::build_tree::<39>", "Heap::{initialize,pqdownheap,pqremove,construct_huffman_tree}", "gen_bitlen", "gen_codes"],
      bounds="bit-length alphabet (19 symbols, limit 7 bits), %d used symbols at concrete positions with symbolic non-zero frequencies" % _k)
h("kd4_build_tree_bl_single", TR, TRP, ["C05", "C01"], kernel="KD4", expect_s=100, timeout=1200, weight=2, unwindset=BT_US(2, "kd4_build_tree_bl_single"),
  functions=["deflate::build_tree::<39> (forced second code)"], bounds="one used symbol (0, 1 or 7) with any non-zero frequency")
def ST_US(n):
    return [("BitWriter::<'_>::send_tree", None, n + 2), ("BitWriter::<'_>::send_tree", ("zlib-rs/src/deflate.rs", "self.send_code(curlen as usize, bl_tree);", -1), 4),
            ("deflate::scan_tree", None, n + 2), ("kd4_trees::send_tree_instance", None, 20)]
for _n, _nz, _name in ((4, 0, "n4"), (5, 0, "n5"), (7, 0, "n7"), (13, 11, "z11_n13")):
    h("kd5_send_tree_" + _name, TR, TRP, ["C05", "C01"], kernel="KD5", expect_s=300, timeout=2400, weight=2, mem_gb=16, unwindset=ST_US(_n),
      functions=["BitWriter::send_tree", "deflate::scan_tree", "BitWriter::send_code", "BitWriter::send_bits"],
      bounds="%d code lengths: %d concrete zeros followed by %d symbolic lengths 0..=15; fixed 5-bit code for the bit-length alphabet; reference RLE decoder (RFC 1951 3.2.7)" % (_n, _nz, _n - _nz))

# ---------------------------------------------------------------- deflate: KD9 window slide
h("kd9_fill_window_slide_keeps_deferred_match", D + "/kd9_window.rs", "deflate::verif_kani::kd9_window", ["C01", "C06"], kernel="KD9", expect_s=120, timeout=1800, weight=2, mem_gb=16,
  functions=["deflate::fill_window (slide branch, no input)"],
  bounds="w_size 512 (window 1024 symbolic bytes), any strstart >= w_size + max_dist, any lookahead < MIN_LOOKAHEAD, any block_start, any insert <= w_size (what level 0 can leave behind for deflateParams), any deferred match "
         "(match_start, prev_length <= 258) satisfying the loop-head invariant of deflate_slow at one symbolic offset (the invariant is pointwise)",
  assumptions=["slide_hash -> no-op (decided by kd9_slide_hash_chain)", "avail_in == 0: fill_window returns after the slide"])
h("kd9_longest_match_any_chain_length", D + "/kd9_window.rs", "deflate::verif_kani::kd9_window", ["C06", "C16"], kernel="KD9", expect_s=60, timeout=1200, weight=2, mem_gb=16,
  functions=["deflate::longest_match::longest_match (chain walk, chain counter)"],
  bounds="concrete 1 KiB window and hash chain of three non-matching candidates; any max_chain_length / good_match / nice_match (what deflateTune can store)",
  assumptions=["unwind 1032 for the window-filling loop of the harness only"], unwindset=[("longest_match::longest_match_help", None, 6), ("kd9_window::kd9_longest_match_any_chain_length", None, 1030)])
h("kd3_fizzle_matches_small", "zlib-rs/src/deflate/algorithm/medium/verif_kani.rs", "deflate::algorithm::medium::verif_kani", ["C01"], kernel="KD3", expect_s=120, timeout=1500, weight=2, mem_gb=16,
  functions=["algorithm::medium::fizzle_matches"],
  bounds="one call; 24 symbolic window bytes; current match 1..=6 bytes, next match 3..=6 bytes anywhere in the window (a real match: assumed bytewise), any max_dist covering it",
  assumptions=["call-site facts of deflate_medium: next.strstart == current.strstart + current.match_length, 1 <= next.match_start < next.strstart, next fits in the window"])
h("kd3_fizzle_matches_long_next", "zlib-rs/src/deflate/algorithm/medium/verif_kani.rs", "deflate::algorithm::medium::verif_kani", ["C01"], kernel="KD3", expect_s=120, timeout=1500, weight=2, mem_gb=16,
  functions=["algorithm::medium::fizzle_matches"],
  bounds="one call; 600 symbolic window bytes; current match 1..=5 bytes, next match 250..=258 bytes (not assumed to be a real match: only lengths and positions are asserted)",
  assumptions=["call-site facts of deflate_medium as in kd3_fizzle_matches_small"])
h("kd3_tail_fast", "zlib-rs/src/deflate/algorithm/verif_kani.rs", "deflate::algorithm::verif_kani", ["C11", "C01", "C07"], kernel="KD3", expect_s=120, timeout=1500, weight=2, mem_gb=16,
  functions=["algorithm::fast::deflate_fast (the path taken when all input is consumed: lookahead == 0, avail_in == 0)"],
  bounds="one call; w_size 512; any strstart in 1..=600, any open block length, 0..=2 symbols already tallied, every flush mode except NoFlush, output room left",
  assumptions=["invariant: the open block is empty exactly when no symbol is tallied or deferred", "fill_window -> no-op asserting avail_in == 0", "flush_block_only -> model: the block takes every tallied symbol and block_start..strstart, symbol buffer emptied, block_start = strstart, avail_out stays > 0 (the real block writer is decided by KD4/KD5/KD1)"])
h("kd3_tail_medium", "zlib-rs/src/deflate/algorithm/verif_kani.rs", "deflate::algorithm::verif_kani", ["C11", "C01", "C07"], kernel="KD3", expect_s=120, timeout=1500, weight=2, mem_gb=16,
  functions=["algorithm::medium::deflate_medium (the path taken when all input is consumed: lookahead == 0, avail_in == 0)"],
  bounds="one call; w_size 512; any strstart in 1..=600, any open block length, 0..=2 symbols already tallied, every flush mode except NoFlush, output room left",
  assumptions=["invariant: the open block is empty exactly when no symbol is tallied or deferred", "fill_window -> no-op asserting avail_in == 0", "flush_block_only -> model: the block takes every tallied symbol and block_start..strstart, symbol buffer emptied, block_start = strstart, avail_out stays > 0 (the real block writer is decided by KD4/KD5/KD1)"])
h("kd3_tail_slow", "zlib-rs/src/deflate/algorithm/verif_kani.rs", "deflate::algorithm::verif_kani", ["C11", "C01", "C07"], kernel="KD3", expect_s=120, timeout=1500, weight=2, mem_gb=16,
  functions=["algorithm::slow::deflate_slow (the path taken when all input is consumed: lookahead == 0, avail_in == 0)"],
  bounds="one call; w_size 512; any strstart in 1..=600, any open block length, 0..=2 symbols already tallied, with or without a deferred literal (match_available), every flush mode except NoFlush, output room left",
  assumptions=["invariant: the open block is empty exactly when no symbol is tallied or deferred", "fill_window -> no-op asserting avail_in == 0", "flush_block_only -> model: the block takes every tallied symbol and block_start..strstart, symbol buffer emptied, block_start = strstart, avail_out stays > 0 (the real block writer is decided by KD4/KD5/KD1)"])
h("kd3_tail_huff", "zlib-rs/src/deflate/algorithm/verif_kani.rs", "deflate::algorithm::verif_kani", ["C11", "C01", "C07"], kernel="KD3", expect_s=120, timeout=1500, weight=2, mem_gb=16,
  functions=["algorithm::huff::deflate_huff (the path taken when all input is consumed: lookahead == 0, avail_in == 0)"],
  bounds="one call; w_size 512; any strstart in 1..=600, any open block length, 0..=2 symbols already tallied, every flush mode except NoFlush, output room left",
  assumptions=["invariant: the open block is empty exactly when no symbol is tallied or deferred", "fill_window -> no-op asserting avail_in == 0", "flush_block_only -> model: the block takes every tallied symbol and block_start..strstart, symbol buffer emptied, block_start = strstart, avail_out stays > 0 (the real block writer is decided by KD4/KD5/KD1)"])
h("kd3_tail_rle", "zlib-rs/src/deflate/algorithm/verif_kani.rs", "deflate::algorithm::verif_kani", ["C11", "C01", "C07"], kernel="KD3", expect_s=120, timeout=1500, weight=2, mem_gb=16,
  functions=["algorithm::rle::deflate_rle (the path taken when all input is consumed: lookahead == 0, avail_in == 0)"],
  bounds="one call; w_size 512; any strstart in 1..=600, any open block length, 0..=2 symbols already tallied, every flush mode except NoFlush, output room left",
  assumptions=["invariant: the open block is empty exactly when no symbol is tallied or deferred", "fill_window -> no-op asserting avail_in == 0", "flush_block_only -> model: the block takes every tallied symbol and block_start..strstart, symbol buffer emptied, block_start = strstart, avail_out stays > 0 (the real block writer is decided by KD4/KD5/KD1)"])
h("kd4_build_bl_tree_announces_every_used_length", D + "/kd4_trees.rs", "deflate::verif_kani::kd4_trees", ["C05", "C01"], kernel="KD4", expect_s=60, timeout=900, weight=2, mem_gb=16,
  functions=["deflate::build_bl_tree (HCLEN: index of the last code length to send, opt_len update)"],
  bounds="any bit-length tree (19 lengths <= 7, also all-zero tails) in which at least one of the length symbols 1..=15 has a code (the end-of-block symbol guarantees it)",
  assumptions=["scan_tree and build_tree stubbed to no-ops: the bit-length tree is given symbolically (they are decided by kd5_send_tree_* and kd4_build_tree_bl_*)", "order of the code-length alphabet transcribed from RFC 1951 3.2.7"])
h("kd3_compress_block_static_two_symbols", D + "/kd1_bitwriter.rs", "deflate::verif_kani::kd1_bitwriter", ["C05", "C01"], kernel="KD3", expect_s=120, timeout=1500, weight=2, mem_gb=16,
  functions=["State::compress_block_static_trees", "SymBuf::{push_lit,push_dist,iter}", "emit_lit", "emit_dist", "emit_end_block"],
  bounds="symbol buffer holding one literal and one match in either order (any byte, any length 3..=258, any distance 1..=32768), 0..=7 bits already in the register",
  assumptions=["reference: RFC 1951 fixed codes, base/extra tables transcribed from the RFC"])
h("kd3_compress_block_general_two_symbols", D + "/kd1_bitwriter.rs", "deflate::verif_kani::kd1_bitwriter", ["C05", "C01"], kernel="KD3", expect_s=120, timeout=1500, weight=2, mem_gb=16,
  functions=["BitWriter::compress_block_help (given the fixed code as its trees)", "SymBuf::{push_lit,push_dist,iter}", "emit_lit", "emit_dist", "emit_end_block"],
  bounds="symbol buffer holding one literal and one match in either order (any byte, any length 3..=258, any distance 1..=32768), 0..=7 bits already in the register",
  assumptions=["reference: RFC 1951 fixed codes, base/extra tables transcribed from the RFC"])
h("kd9_slide_hash_chain", "zlib-rs/src/deflate/slide_hash/verif_kani.rs", "deflate::slide_hash::verif_kani", ["C01"], kernel="KD9", expect_s=60, timeout=900,
  functions=["slide_hash::slide_hash_chain", "generic_slide_hash_chain::<32>"], bounds="64 symbolic entries, any wsize")

# ---------------------------------------------------------------- deflate: KD6 stored path
h("kd6_stored_pending_block_fits_len16", D + "/kd6_stored.rs", "deflate::verif_kani::kd6_stored", ["C05", "C01"], kernel="KD6", expect_s=120, timeout=1200, weight=2, mem_gb=20,
  functions=["algorithm::stored::deflate_stored (path that builds the block in the pending buffer)", "flush_pending"],
  bounds="production sizes: windowBits 15 (64 KiB window), memLevel 9 (128 KiB pending buffer, empty); any strstart <= 65536 and block_start <= strstart, no input, avail_out <= 4, every flush mode",
  assumptions=["zng_tr_stored_block -> contract stub: asserts the range lies in the window and is at most 65535 bytes long, writes nothing (the real writer at small sizes is decided by kd6_stored_*)"])
h("kd6_stored_one_call", D + "/kd6_stored.rs", "deflate::verif_kani::kd6_stored", ["C01", "C05", "C06", "C07", "C11", "C15"],
  kernel="KD6", expect_s=400, timeout=2400, weight=3, mem_gb=20,
  functions=["algorithm::run", "algorithm::stored::deflate_stored", "read_buf_direct_copy", "read_buf_window", "zng_tr_stored_block",
             "flush_pending", "Pending::{extend,rewind,advance}", "BitWriter::{emit_tree,emit_align}", "deflate::bound (level-0 branch)"],
  bounds="typed level-0 state, w_size 16 (window 32 B), pending 64 B; one call with 0..=6 symbolic input bytes, output space 1..=24 in a canaried "
         "array, flush in {NoFlush, SyncFlush, FullFlush, Finish}; oracle = stored-block reference parser (RFC 1951 3.2.4) in the harness",
  assumptions=["reduced w_size/pending: deflate_stored takes both from the state and never uses MIN_LOOKAHEAD",
               "raw wrapper (wrap = 0): checksums are the subject of other harnesses"])
h("kd6_stored_resume", D + "/kd6_stored.rs", "deflate::verif_kani::kd6_stored", ["C11", "C06", "C01", "C15"],
  kernel="KD6", expect_s=500, timeout=3000, weight=3, mem_gb=24,
  functions=["algorithm::stored::deflate_stored", "read_buf_direct_copy", "read_buf_window", "zng_tr_stored_block", "flush_pending"],
  bounds="as kd6_stored_one_call, but from the state an earlier Z_NO_FLUSH call leaves behind: 0..=3 symbolic bytes buffered in the window; "
         "0..=3 new input bytes, output space 1..=18, flush in {NoFlush, SyncFlush, FullFlush, Finish}",
  assumptions=["reduced w_size/pending", "raw wrapper"])
h("kd6_stored_flush_tail_k3", D + "/kd6_stored.rs", "deflate::verif_kani::kd6_stored", ["C11", "C06"],
  kernel="KD6", expect_s=400, timeout=1800, weight=2, mem_gb=20,
  functions=["algorithm::stored::deflate_stored (flush with buffered input)", "zng_tr_stored_block", "flush_pending"],
  bounds="typed level-0 state, w_size 16, pending 64 B; 3 symbolic bytes buffered by an earlier Z_NO_FLUSH call, no new input, output space 0..=12, "
         "flush in {SyncFlush, FullFlush}; BlockDone only with nothing left in the window or pending, and the block bytes compared with RFC 1951 3.2.4",
  assumptions=["reduced w_size/pending", "raw wrapper"])
h("kd6_stored_window_holds_the_latest_input", D + "/kd6_stored.rs", "deflate::verif_kani::kd6_stored", ["C01", "C13"],
  kernel="KD6", expect_s=400, timeout=2400, weight=3, mem_gb=24,
  functions=["algorithm::stored::deflate_stored (window update after direct copies, used >= w_size and used < w_size)", "read_buf_direct_copy", "read_buf_window", "Window::copy_and_initialize"],
  bounds="typed level-0 state, w_size 16 (window 32 B); one call with 18 symbolic input bytes, output space 21..=24 (a direct block of 16, 17 or 18 bytes, the rest buffered), "
         "flush in {NoFlush, SyncFlush}; every one of the last 16 bytes taken in is compared with the window below strstart",
  assumptions=["reduced w_size/pending", "raw wrapper", "empty window before the call"])
h("kd6_stored_tiny_pending", D + "/kd6_stored.rs", "deflate::verif_kani::kd6_stored", ["C01", "C05", "C06"],
  kernel="KD6", tier="thorough", expect_s=500, timeout=3000, weight=3, mem_gb=24,
  functions=["algorithm::stored::deflate_stored", "zng_tr_stored_block", "flush_pending"],
  bounds="as kd6_stored_resume with a pending buffer of 8 bytes (a stored block of at most 3 bytes fits): 0..=4 bytes buffered, 0..=2 new, output 1..=18, any flush",
  assumptions=["reduced w_size/pending", "raw wrapper"])
# ---------------------------------------------------------------- deflate: KD7 status machine
RUNSTUB = ["algorithm::run -> contract stub (consumes all input, emits nothing, returns NeedMore/BlockDone/FinishDone by flush)",
           "<[u16]>::fill -> ptr::write_bytes(0) model (head.fill(0) is a 65536-iteration loop under CBMC)"]
h("kd7_zlib_wrapper", D + "/kd7_machine.rs", "deflate::verif_kani::kd7_machine", ["C05", "C06", "C11", "C13", "C15"],
  kernel="KD7", expect_s=40, timeout=900,
  functions=["deflate::deflate", "State::header", "State::level_flags", "flush_pending", "zng_tr_stored_block", "BitWriter::align", "rank_flush"],
  bounds="zlib wrapper, w_bits 9, all levels 0..=9 x 5 strategies x dictionary/no dictionary x any DICTID x flush in {Finish, Sync, Full, Partial, Block}; 16 bytes of output; second identical call",
  assumptions=RUNSTUB)
h("kd7_finish_after_prime_on_a_finished_stream", D + "/kd7_machine.rs", "deflate::verif_kani::kd7_machine", ["C16", "C06"], kernel="KD7", expect_s=120, timeout=1200, weight=2, mem_gb=16,
  functions=["deflate::prime", "deflate::deflate (status Finish)", "flush_pending", "BitWriter::flush_bits"],
  bounds="typed state of a finished stream (raw, or zlib/gzip with the trailer written), empty pending buffer and bit register; deflatePrime with any bits in 0..=32 and any value, then deflate(Z_FINISH) with 0..=6 bytes of room",
  assumptions=["algorithm::run stubbed (not reached: nothing to compress on a finished stream)"])
h("kd7_flush_that_fills_the_buffer_is_repeated", D + "/kd7_machine.rs", "deflate::verif_kani::kd7_machine", ["C16", "C15", "C11", "C06"], kernel="KD7", expect_s=120, timeout=1200, weight=2, mem_gb=16,
  functions=["deflate::deflate (BlockDone arm: marker, flush_pending, last_flush bookkeeping; duplicate-flush test at entry)", "flush_pending", "zng_tr_stored_block"],
  bounds="raw stream, Sync or Full flush with 3 input bytes, 2..=8 bytes of room (the marker is 5), then the same flush again with 12 bytes of room and no input",
  assumptions=["algorithm::run -> contract stub (consumes the input, completes the block without output of its own)"])
h("kd7_zlib_starved_finish", D + "/kd7_machine.rs", "deflate::verif_kani::kd7_machine", ["C06", "C11", "C05", "C15"],
  kernel="KD7", expect_s=330, timeout=1800, weight=3, mem_gb=24,
  functions=["deflate::deflate", "flush_pending"],
  bounds="zlib wrapper with dictionary id, Finish, up to 11 calls with 1..=3 bytes of output space each (symbolic)", assumptions=RUNSTUB)

# ---------------------------------------------------------------- deflate: KD10 entry points
E = D + "/kd10_entry.rs"
EP = "deflate::verif_kani::kd10_entry"
h("kd10_reset_equals_fresh", E, EP, ["C14", "C10", "C01", "C06"], kernel="KD10", expect_s=200, timeout=1800, weight=3, mem_gb=20,
  functions=["deflate::reset", "reset_keep", "lm_init", "lm_set_level", "State::zng_tr_init", "State::init_block", "Pending::reset_keep", "SymBuf::clear"],
  bounds="typed state w_bits 9, every scalar field of State and of the stream arbitrary, levels 0..=9, wrap 0/1/2 (negated or not), any status; "
         "compared field by field with reset() of the state init() constructs",
  assumptions=["<[u16]>::fill / <[u8]>::fill -> ptr::write_bytes(0) model", "buffer contents are not compared (covered by the head[i] == 0 check for a symbolic i)"])
h("ka2_deflate_copy_alloc_failure", E, EP, ["C18", "C14"], kernel="KA2", expect_s=10, timeout=600,
  functions=["deflate::copy (failure path)", "Allocator::allocate_slice_raw", "DeflateAllocOffsets::new"],
  bounds="typed source stream, allocator that fails its only request; counts zalloc/zfree calls")
h("kd10_params_leaving_level0_settles_the_hash_debt", D + "/kd10_entry.rs", "deflate::verif_kani::kd10_entry", ["C06", "C16", "C01"], kernel="KD10", expect_s=60, timeout=900, weight=2, mem_gb=16,
  functions=["deflate::params (hash-table bookkeeping at a level change)", "lm_set_level"],
  bounds="first call after init/reset (no flush precedes the switch); any current level, any new level 0..=9, matches in 0..=2, one dirty hash entry at a fixed index",
  assumptions=["slide_hash -> counting stub (decided by kd9_slide_hash_chain)", "<[u16]>::fill -> zeroing stub"])
h("kd10_get_dictionary_is_the_window_tail", D + "/kd10_entry.rs", "deflate::verif_kani::kd10_entry", ["C16", "C13"], kernel="KD10", expect_s=30, timeout=900,
  functions=["deflate::get_dictionary"], bounds="w_size 16 (32 symbolic window bytes), any strstart and look-ahead with strstart + lookahead <= 32, canaried 16-byte buffer or NULL",
  assumptions=["rule transcribed from zlib-ng's deflateGetDictionary"])
h("kd10_params_tune", E, EP, ["C06", "C16"], kernel="KD10", expect_s=60, timeout=900,
  functions=["deflate::params", "deflate::tune", "lm_set_level", "DeflateStream::pending"],
  bounds="every i32 level, 5 strategies, any previous level 0..=9, any last_flush/matches; tune with four arbitrary usize values",
  assumptions=["deflate::deflate -> contract stub (Block flush with room consumes all input)", "slide_hash -> no-op stub (its effect on head/prev is KD9's subject)",
               "<[u16]>::fill -> write_bytes model"])
h("kd10_set_header", E, EP, ["C16", "C20", "C06"], kernel="KD10", expect_s=5, timeout=300,
  functions=["deflate::set_header"], bounds="wrap in -2..=2, header present or None")

# ---------------------------------------------------------------- allocator shim
A = "zlib-rs/src/allocate/verif_kani.rs"
h("ka1_alloc_shim", A, "allocate::verif_kani", ["C18"], kernel="KA1", expect_s=10, timeout=600,
  functions=["Allocator::allocate_layout", "Allocator::deallocate"],
  bounds="user zalloc returning base+k for every misalignment k < 64 out of a canaried arena (or NULL), size 1..=64, align 2^0..2^6",
  assumptions=["zalloc contract: returns NULL or a block of at least items*size bytes"])
h("ka1_default_allocator_refuses_oversized_requests", "zlib-rs/src/allocate/verif_kani.rs", "allocate::verif_kani", ["C18", "C02"], kernel="KA1", expect_s=20, timeout=600,
  functions=["Allocator::allocate_layout / allocate_layout_zeroed (fast path of the default Rust allocator)", "allocate_slice_raw", "allocate_zeroed_buffer"],
  bounds="any length in (2^32, isize::MAX - 64]", assumptions=["zalloc_rust / zalloc_rust_calloc -> panic stub (must not be reached)"])
h("ka1_alloc_overflow_and_null", A, "allocate::verif_kani", ["C18", "C06"], kernel="KA1", expect_s=5, timeout=300,
  functions=["Allocator::allocate_slice_raw", "Allocator::allocate_layout", "Allocator::deallocate"],
  bounds="every length above u32::MAX - 9 (request no longer fits unsigned int); NULL pointer deallocation")

# ---------------------------------------------------------------- deflate: KD8 level-1 path
Q = D + "/kd8_quick.rs"
QP = "deflate::verif_kani::kd8_quick"
QFN = ["deflate::deflate", "deflate::reset", "algorithm::run", "algorithm::quick::deflate_quick", "fill_window", "read_buf_window",
       "hash_calc::StandardHashCalc::quick_insert_value", "compare256::compare256_slice (generic)", "BitWriter::{emit_tree,emit_lit,emit_dist_static,emit_end_block_and_align}",
       "flush_pending", "deflate::bound"]
QAS = ["<[u16]>::fill / <[u8]>::fill -> write_bytes(0) model", "State::init_block -> write_bytes model with the same post-state (level 1 never reads the frequencies)",
       "reduced sizes: w_size 512, pending 64 B; raw wrapper"]
h("kd8_quick_finish_n1", Q, QP, ["C01", "C05", "C07", "C06"], kernel="KD8", expect_s=80, timeout=1200, weight=2, mem_gb=16,
  functions=QFN, bounds="level 1, one Finish call, input length 1 (concrete), contents symbolic, 14 bytes of output; oracle: fixed-Huffman reference decoder", assumptions=QAS)
h("kd8_quick_finish_n3", Q, QP, ["C01", "C05", "C07", "C06"], kernel="KD8", expect_s=300, timeout=2400, weight=3, mem_gb=20,
  functions=QFN, bounds="level 1, one Finish call, input length 3 (concrete), contents symbolic; oracle: fixed-Huffman reference decoder", assumptions=QAS)
# kd8_quick_finish_n5 (first input length at which deflate_quick can emit a match): out of memory at 30 GB (525 s), also when run
# alone: NOT registered.  Level 1 is decided end to end for input lengths 1 and 3 only.
h("kd8_quick_sync_n3", Q, QP, ["C11", "C01", "C05"], kernel="KD8", expect_s=300, timeout=2400, weight=3, mem_gb=20,
  functions=QFN + ["zng_tr_stored_block"], bounds="level 1, one Sync or Full flush call, input length 3 (concrete), contents symbolic, 18 bytes of output", assumptions=QAS)

# ---------------------------------------------------------------- inflate: KI7 inflate() entry, KI8 small entry points
h("ki7_inflate_copyblock", I + "/ki7_inflate.rs", "inflate::verif_kani::ki7_inflate", ["C15", "C04", "C08", "C02", "C13"],
  kernel="KI7", expect_s=300, timeout=2400, weight=3, mem_gb=20,
  functions=["inflate::inflate (prologue, epilogue, must_update_window, BufError rule)", "State::dispatch (CopyBlock, Type, TypeDo, Check, Length, Done)",
             "Window::extend", "adler32_fold_copy", "State::decoding_state", "inflate::get_dictionary"],
  bounds="resumed stored block (remaining <= 5), final block, wrap in {0,1,5}, 0..=7 input bytes, output capacity 0..=4 in a canaried array, any flush, "
         "any running checksum and totals, window W = 4",
  assumptions=STEP_ASSUME + ["adler32::adler32 -> byte-wise fold model (which bytes are folded, once, in order; Adler-32 itself is C09's subject)"])
for _b in (8, 16, 32):
    h("ki7_inflate_primed_%d_then_fast" % _b, I + "/ki7_inflate.rs", "inflate::verif_kani::ki7_inflate", ["C15", "C02", "C16"], kernel="KI7", expect_s=120, timeout=1800, weight=2, mem_gb=16,
      unwindset=DISPATCH_US(8) + [("State::<'_>::len_and_friends", None, 3)],
      functions=["inflate::inflate (prologue, epilogue cursor arithmetic)", "State::dispatch", "State::len_and_friends (hand-over to inflate_fast)"],
      bounds="raw stream in Mode::Len on the fixed tables, last block; %d zero bits in the register as left by inflatePrime (the end-of-block code is among them), 16 input bytes, 300 bytes of output space" % _b,
      assumptions=["inflate_fast_help -> contract stub asserting zlib's documented entry assumption bits < 8 (the stub decodes nothing; the slow path continues)", "inflate_table stubbed by assume(false)"])
h("ki7_inflate_terminal", I + "/ki7_inflate.rs", "inflate::verif_kani::ki7_inflate", ["C15", "C16", "C02"],
  kernel="KI7", expect_s=60, timeout=900,
  functions=["inflate::inflate"], bounds="modes Done and Bad, NULL or valid next_in/next_out, avail_in <= 4, any flush", assumptions=STEP_ASSUME)
h("ki8_reset_equals_fresh", I + "/ki8_entry.rs", "inflate::verif_kani::ki8_entry", ["C14", "C16", "C10"],
  kernel="KI8", expect_s=60, timeout=900,
  functions=["inflate::reset_with_config", "inflate::reset", "inflate::reset_keep", "Window::clear"],
  bounds="every scalar of the inflate State arbitrary (8 representative modes), every i32 windowBits; compared with reset of a freshly constructed State")
h("ki8_reset_keep_forgets_the_stream", I + "/ki8_entry.rs", "inflate::verif_kani::ki8_entry", ["C16", "C13", "C14"], kernel="KI8", expect_s=30, timeout=900,
  functions=["inflate::reset_keep"], bounds="any mode/flags/wrap/wbits/totals/register/tables before the call", assumptions=["rule table transcribed from zlib-ng's inflateResetKeep"])
h("ki8_small_entry_points", I + "/ki8_entry.rs", "inflate::verif_kani::ki8_entry", ["C16", "C02"],
  kernel="KI8", expect_s=60, timeout=900,
  functions=["inflate::prime", "sync_point", "validate", "undermine", "mark", "codes_used", "get_header", "BitReader::prime"],
  bounds="any 0..=31 bits in the register, every i32 bits/value/subvert, any wrap <= 7")
h("ki8_sync", I + "/ki8_entry.rs", "inflate::verif_kani::ki8_entry", ["C16", "C02", "C15"],
  kernel="KI8", expect_s=120, timeout=1200, weight=2,
  functions=["inflate::sync", "syncsearch", "BitReader::start_sync_search", "inflate::reset"],
  bounds="0..=6 symbolic input bytes, bit register empty / 5 stray bits / one whole symbolic byte, any wrap, header seen or not; reference scan for 00 00 FF FF in the harness")

# ---------------------------------------------------------------- inflateBack
def KB1_US(main, body="back_instance", inner=3):
    return [("infback::back", None, inner), ("infback::back", 0, main),
            ("infback::back", ("zlib-rs/src/inflate/infback.rs", "for _ in 0..copy {"), 5),
            ("infback::back", ("zlib-rs/src/inflate/infback.rs", "while usize::from(bits) < $n {"), 5),
            ("kb1_back::" + body, None, 14)]



KB1_AS = ["inflate_table stubbed by assume(false) (dynamic blocks outside)", "inflate_fast_back behind a checked stub (needs >= 15 input bytes)",
          "concrete prefix: CBMC keeps decoder modes concrete only for fully concrete bytes (DESIGN.md §1)", "one input slice; output callback never aborts"]
_quick1 = {0, 4, 15, 16, 29, 30}
for _d in range(32):
    h("kb1_back_lit1_d%d" % _d, I + "/kb1_back.rs", "inflate::verif_kani::kb1_back", ["C19", "C02"] if _d in _quick1 else ["C19"],
      kernel="KB1", tier="quick" if _d in _quick1 else "thorough", expect_s=120, timeout=1500, weight=2, mem_gb=16, unwindset=KB1_US(8),
      functions=["inflate::infback::back (modes Type, Len incl. distance decoding, the too-far check and the window copy loop, Done, Bad)"],
      bounds="windowBits 8 (256-byte window as a typed local); concrete prefix: final fixed block, 1 literal, length-3 code, distance code %d; "
             "then ceil(extra/8) symbolic bytes = every value of the extra bits (< 8 bits left over)" % _d, assumptions=KB1_AS)
for _d in range(8):
    h("kb1_back_lit9_d%d" % _d, I + "/kb1_back.rs", "inflate::verif_kani::kb1_back", ["C19"],
      kernel="KB1", tier="quick" if _d in (0, 5) else "thorough", expect_s=200, timeout=1800, weight=2, mem_gb=16, unwindset=KB1_US(16),
      functions=["inflate::infback::back"],
      bounds="windowBits 8; concrete prefix: final fixed block, 9 literals, length-3 code, distance code %d (distances %s); then ceil(extra/8) symbolic bytes; "
             "in-window matches must reproduce the LZ77 bytes" % (_d, "1..=8 region"), assumptions=KB1_AS)

for _d in (0, 1, 3, 5, 6, 7, 8):
    h("kb1_back_wrapped_d%d" % _d, I + "/kb1_back.rs", "inflate::verif_kani::kb1_back", ["C19"],
      kernel="KB1", expect_s=200, timeout=1800, weight=2, mem_gb=16, unwindset=KB1_US(14, "back_wrapped_instance", inner=3),
      functions=["inflate::infback::back (Stored copy, window flush through the output callback, Len, too-far check after the window wrapped, ring copy)"],
      bounds="reduced instance: 16-byte window (back() takes every size from window.buffer_size(); the API creates 256..32768); concrete input: "
             "non-final stored block of exactly 16 bytes (fills and flushes the window), final fixed block with 1 literal, length-3 code, distance "
             "code %d; then ceil(extra/8) symbolic bytes (all extra-bit values); distances <= 16 must be accepted and copy from the ring, larger rejected" % _d,
      assumptions=KB1_AS)

for _nm in ("s1", "s2"):
    h("kb1_back_fast_toofar_" + _nm, I + "/kb1_back.rs", "inflate::verif_kani::kb1_back", ["C19", "C02"],
      kernel="KB1", expect_s=60, timeout=1200, weight=2, mem_gb=16,
      unwindset=[("infback::back", None, 3), ("infback::back", 0, 8),
                 ("infback::back", ("zlib-rs/src/inflate/infback.rs", "for _ in 0..copy {"), 5), ("infback::back", ("zlib-rs/src/inflate/infback.rs", "while usize::from(bits) < $n {"), 5)],
      functions=["inflate::infback::back (slow path for the first symbol, hand-over to the fast loop)"],
      bounds="512-byte window; 44-byte stream: final fixed block, 1 literal, length 3 with distance 2 (only 1 byte of data exists), then 40 literals and the end-of-block code (a valid stream but for that distance); "
             "input delivered as a first slice of 1 byte (the fast loop is entered with one byte of output already produced) or 2 bytes (slow path decodes the match) and the rest",
      assumptions=["inflate_table stubbed by assume(false)", "inflate_fast_back -> contract stub: asserts window.have() in {0, window size} (history before the window buffer only), "
                   "then reports the too-far distance as the real loop does when that holds (the real loop did not finish in 1800 s even on concrete input)"])

for _w in (100, 88, 87):
    h("kb1_fast_back_beyond_window_w%d" % _w, "zlib-rs/src/inflate/infback/verif_kani.rs", "inflate::infback::verif_kani", ["C19", "C02"],
      kernel="KB1", expect_s=120, timeout=1800, weight=2, mem_gb=16,
      functions=["inflate::infback::inflate_fast_back (called directly)"],
      bounds="512-byte window that has been flushed once, %d bytes of the current pass written; concrete input: length 3 at distance 600, end of block "
             "(600 <= 512 + written for 100 and 88: the case the loop used to accept; 87: one short of it)" % _w,
      assumptions=["fully concrete input: the verdict of the fast loop is the subject; every CBMC safety check along the path applies"])

h("kb1_back_output_refused", I + "/kb1_back.rs", "inflate::verif_kani::kb1_back", ["C19"], kernel="KB1", expect_s=200, timeout=1800, weight=2, mem_gb=16,
  unwindset=KB1_US(14, "back_wrapped_instance", inner=3)[:-1],
  functions=["inflate::infback::back (window-full flush `room!`, final flush, output-callback protocol)"],
  bounds="16-byte window (reduced instance), concrete stream: stored block of 16 bytes, then literal + length 3 at distance 1; the output callback refuses its first call, its second call, or none",
  assumptions=["inflate_table stubbed by assume(false)", "inflate_fast_back behind a checked stub", "one input slice"])
# (kb1_fast_back_straddling_overlap: did not finish in 900 s even on a nearly concrete instance; not registered, see the comment in infback/verif_kani.rs)

# ---------------------------------------------------------------- checksums (C09)
CB = "zlib-rs/src/crc32/braid/verif_kani.rs"
CBP = "crc32::braid::verif_kani"
h("kc9_crc_tables", CB, CBP, ["C09"], kernel="KC9", expect_s=30, timeout=900,
  functions=["crc32::braid::{CRC32_BYTE_TABLE, CRC32_WORD_TABLE}", "get_crc_table", "build_crc32_table (evaluated by rustc, result checked)"],
  bounds="all 256 x 8 table entries (symbolic indices); reference = bitwise shift steps of polynomial 0xEDB88320")
h("kc9_crc_braid_table", CB, CBP, ["C09"], kernel="KC9", expect_s=60, timeout=900,
  functions=["Crc32BraidTable::<5>::TABLE"], bounds="all 256 x 8 entries of the N = 5 braid table (up to 320 bit steps each)")
h("kc9_crc_naive_step", CB, CBP, ["C09"], kernel="KC9", expect_s=30, timeout=900,
  functions=["crc32::braid::crc32_naive_inner"], bounds="every 32-bit crc, one and two symbolic bytes (induction step of the byte kernel)")
# kc9_crc_word_step (word kernel vs byte kernel): did not terminate in 1800 s even with concrete words and a symbolic crc: not registered
h("kc9_crc_braid_short", CB, CBP, ["C09"], kernel="KC9", expect_s=60, timeout=900, weight=2, mem_gb=16,
  functions=["crc32::braid::crc32_braid::<5> (inversions, prefix/words/suffix composition)", "crc32_naive_inner", "crc32_words_inner (empty word part)"],
  bounds="symbolic start, 0..=4 symbolic bytes; reference = bitwise CRC-32",
  assumptions=["<[u8]>::align_to -> returns everything in the prefix (an answer its contract permits; Kani's model of the split ran out of memory at 16 GB); "
               "the word path is therefore NOT exercised here: its tables are decided by kc9_crc_tables / kc9_crc_braid_table, the word step itself is not claimed"])
CC = "zlib-rs/src/crc32/combine/verif_kani.rs"
CCP = "crc32::combine::verif_kani"
h("kc9_crc_combine_len0_1_2", CC, CCP, ["C09"], kernel="KC9", expect_s=120, timeout=1800, weight=2,
  functions=["crc32_combine", "crc32_combine_gen", "crc32_combine_op", "multmodp", "x2nmodp"],
  bounds="symbolic crc(A), symbolic B of concrete length 0, 1, 2; combine == bitwise CRC of A || B, both forms")
h("kc9_crc_combine_len3_4", CC, CCP, ["C09"], kernel="KC9", tier="thorough", expect_s=600, timeout=3600, weight=2,
  functions=["crc32_combine", "crc32_combine_gen", "crc32_combine_op"], bounds="symbolic crc(A), symbolic B of concrete length 3 and 4")
h("kc9_crc32_dispatch_passes_the_start_value", "zlib-rs/src/crc32/verif_kani.rs", "crc32::verif_kani", ["C09", "C08"], kernel="KC9", expect_s=60, timeout=900, weight=2, mem_gb=16,
  functions=["crc32::crc32 (length dispatch)", "Crc32Fold::{new_with_initial,fold,finish} (portable path)"],
  bounds="any start value; 63 and 64 symbolic bytes (both sides of the 64-byte switch); the 64 bytes cut at any point",
  assumptions=["braid::crc32_braid -> cheap order- and start-sensitive fold (the kernel is decided by kc9_crc_braid_*)", "Kani builds without std: the pclmulqdq path (runtime CPU detection) is not encoded"])
h("kc9_multmodp_identity", CC, CCP, ["C09"], kernel="KC9", expect_s=60, timeout=1200,
  functions=["multmodp"], bounds="every 32-bit b: x^0 is a left and right identity (GF(2)-linearity of the multiplier did not terminate in 1200 s and is not claimed)")
AD = "zlib-rs/src/adler32/verif_kani.rs"
ADP = "adler32::verif_kani"
h("kc9_adler_closed_form_is_rfc", AD, ADP, ["C09"], kernel="KC9", tier="thorough", expect_s=650, timeout=2400,
  functions=["(harness) closed form vs RFC 1950 recurrence"], bounds="length 0 and 3, every valid start, symbolic data")
h("kc9_adler_len_0_1_2_3", AD, ADP, ["C09", "C08"], kernel="KC9", expect_s=60, timeout=1200,
  functions=["adler32::adler32", "generic::adler32_rust", "adler32_len_1", "adler32_len_16"],
  bounds="lengths 0, 1, 2, 3 (concrete), every valid start, symbolic data; reference = closed form of the RFC recurrence")
h("kc9_adler_len_4_5", AD, ADP, ["C09"], kernel="KC9", tier="thorough", expect_s=1300, timeout=3600, weight=2,
  functions=["adler32::adler32", "generic::adler32_rust", "adler32_len_16"], bounds="lengths 4 and 5, every valid start, symbolic data")
# lengths 8 and 16 (each on its own: > 1 h) and 15/16/17 together (2400 s) did not terminate: not registered, not claimed
h("kc9_adler_tail_reduces_any_sum", AD, ADP, ["C09"], kernel="KC9", expect_s=60, timeout=900,
  functions=["adler32::generic::adler32_len_16 (final reduction)"], bounds="any low sum up to NMAX * 255 + BASE, any high sum, empty tail")
h("kc9_adler_piecewise_fold_copy", AD, ADP, ["C09", "C08"], kernel="KC9", tier="thorough", expect_s=700, timeout=2400, weight=2, mem_gb=24, rss_gb=14,
  functions=["adler32::adler32", "adler32::adler32_fold_copy"], bounds="5 symbolic bytes cut at any point, every valid start; result stays a valid Adler-32 value")

# ---------------------------------------------------------------- Engine B (MIR -> SMT-LIB) queries
ENGINE_B.append({"name": "compress_bound", "props": ["C07"]})
ENGINE_B.append({"name": "adler32_combine", "props": ["C09"]})   # range + low half only; high half == definition does not terminate
ENGINE_B.append({"name": "small_integer_kernels", "props": ["C06", "C08"]})

# ---------------------------------------------------------------- copy kernels (C14)
h("kd10c_pending_clone_to", "zlib-rs/src/deflate/pending/verif_kani.rs", "deflate::pending::verif_kani", ["C14"], kernel="KD10c", expect_s=20, timeout=600,
  functions=["Pending::clone_to", "Pending::{advance,pending,remaining,capacity}"], bounds="16-byte pending buffer, every (written, drained) position, symbolic contents")
h("kd10c_symbuf_clone_to", "zlib-rs/src/deflate/sym_buf/verif_kani.rs", "deflate::sym_buf::verif_kani", ["C14", "C10"], kernel="KD10c", expect_s=20, timeout=600,
  functions=["SymBuf::clone_to", "SymBuf::{push_lit,push_dist,iter}"], bounds="lit_bufsize 4, 0..=3 symbolic symbols, destination memory pre-filled with a non-zero pattern; one more literal pushed through original and copy")
h("ki8c_window_clone_to", "zlib-rs/src/inflate/window/verif_kani.rs", "inflate::window::verif_kani", ["C14"], kernel="KI8c", expect_s=20, timeout=600,
  functions=["inflate::Window::clone_to", "Window::extend"], bounds="W = 8, any history from one extend of <= 12 bytes")

# ki5c_codelens_*: Mode::CodeLens run-length items.  Every formulation timed out or ran out of memory (the arm stores into `lens[]`
# inside the 14 KB decoder state) until CBMC was told to keep arrays up to 2048 elements field-sensitive
# (--max-field-sensitivity-array-size 2048: propositional reduction 20+ min -> seconds) AND the bit register was made
# syntactically concrete (a register `code | x << 3` with symbolic x makes the table entry symbolic: symex > 15 min).
FS_ARRAYS = ["--max-field-sensitivity-array-size", "2048"]
def CODELENS_US(fill):
    return DISPATCH_US(3, inner=3) + [("ki5_blocks::codelens_item", None, 24), ("slice::<impl [u16]>::fill", None, fill)]
CODELENS_ASSUME = ["concrete code-length code {0:2, 1:2, 2:3, 16:3, 17:3, 18:3 bits} installed directly in codes_codes", "inflate_table -> Success stub (tables "
                   "are not the subject)", "<[u16]>::fill -> plain element loop (bounded by the largest repeat count of the code)",
                   "CBMC --max-field-sensitivity-array-size 2048"] + STD_STUBS[:0]
for _s, _r, _f in ((16, 5, 8), (17, 7, 12), (18, 20, 24)):
    for _k in ("short", "exact", "over"):
        h("ki5c_codelens_%d_%s" % (_s, _k), BLK, BP, ["C03", "C02"], kernel="KI5c", expect_s=170, timeout=1200, weight=2, mem_gb=16, unwindset=CODELENS_US(_f), cbmc_args=FS_ARRAYS,
          functions=["State::dispatch (mode CodeLens, one run-length item with code %d)" % _s],
          bounds="HLIT 257 + HDIST 30, %d lengths outstanding, the concrete code in the register, concrete extra bits making the run end one %s HLIT+HDIST; "
                 "symbolic previous length and end-of-block length: stored values, nothing beyond them, verdict (accepted / 'repeat past the end' / "
                 "'missing end-of-block')" % (_r, {"short": "short of", "exact": "exactly at", "over": "past"}[_k]),
          assumptions=CODELENS_ASSUME + ["repeat count concrete per instance (a symbolic count makes the progress counter symbolic and symex does not finish)"])
    h("ki5c_codelens_%d_suspend" % _s, BLK, BP, ["C04", "C03"], kernel="KI5c", expect_s=170, timeout=1200, weight=2, mem_gb=16, unwindset=CODELENS_US(_f), cbmc_args=FS_ARRAYS,
      functions=["State::dispatch (mode CodeLens, code %d with its extra bits missing)" % _s],
      bounds="the concrete code in the register, no input: the call suspends with the register, progress counter and lengths untouched",
      assumptions=CODELENS_ASSUME)

# ---------------------------------------------------------------- inflate: KI6 fast loop
h("ki6_fast_loop_walks_the_window_ring", I + "/ki6_fast.rs", "inflate::verif_kani::ki6_fast", ["C04", "C02"], kernel="KI6", expect_s=300, timeout=1500, weight=3, mem_gb=20,
  functions=["inflate::inflate_fast_help_impl::<NONE> (one 'outer iteration): choice of the window ranges a match is served from"],
  bounds="15 symbolic input bytes, 262 bytes of output room, fixed tables, window 8 that has wrapped (full, write head anywhere)",
  unwindset=[("inflate_fast_help_impl", None, 3)],
  assumptions=["inflate_table stubbed (fixed tables only)", "copy primitives -> contract stubs as in ki6_fast_loop_room; extend_from_window additionally records the ranges it is asked for"])
h("ki6_fast_loop_match_from_a_wrapped_window", I + "/ki6_fast.rs", "inflate::verif_kani::ki6_fast", ["C04", "C02"], kernel="KI6", expect_s=200, timeout=1500, weight=3, mem_gb=20,
  functions=["inflate::inflate_fast_help_impl::<NONE>: window ranges of a match whose source crosses the wrap point"],
  bounds="concrete fixed-code stream (length 4 at distance 6, end of block), wrapped 8-byte window with position-naming bytes, write head anywhere (every split of the match across the end of the window buffer)",
  unwindset=[("inflate_fast_help_impl", None, 3), ("extend_from_window_with_features", None, 10), ("ki6_fast::ki6_fast_loop_match_from_a_wrapped_window", None, 10)],
  assumptions=["inflate_table stubbed", "extend_from_window -> byte loop with the primitive's semantics (KI2 decides the chunked primitive); copy_match -> contract stub (not reached: the source lies in the window)"])
h("ki6_fast_loop_room", I + "/ki6_fast.rs", "inflate::verif_kani::ki6_fast", ["C02"], kernel="KI6", expect_s=300, timeout=2400, weight=3, mem_gb=20,
  functions=["inflate::inflate_fast_help_impl::<NONE> (one 'outer iteration)", "BitReader::refill", "BitReader::return_unused_bytes", "Writer::push",
             "inffixed_tbl::{LENFIX,DISTFIX}"],
  bounds="entry condition of the fast loop: 15 symbolic input bytes, output room = INFLATE_FAST_MIN_LEFT + 0..=2 inside a canaried array, fixed tables, window 8 with symbolic have",
  unwindset=[("inflate_fast_help_impl", None, 3), ("ki6_fast::fast_one_iteration", None, 10)],
  assumptions=["inflate_table stubbed (fixed tables only)",
               "Writer::copy_match_with_features / extend_from_window_with_features -> contract stubs that assert the caller-side precondition "
               "(offset <= filled, length <= remaining, range inside the window) and account for the bytes; the primitives themselves are KI2's subject"])

h("kd10_set_dictionary_protocol", E, EP, ["C13", "C05", "C16"], kernel="KD10", expect_s=60, timeout=1200,
  functions=["deflate::set_dictionary"],
  bounds="typed state w_size 512, wrap 0/1/2, Init or Busy, lookahead 0..=2, dictionary of every length 0..=1100 (beyond twice the window)",
  assumptions=["adler32 -> stand-in that identifies the slice checksummed (start, length, address)",
               "fill_window -> contract stub (consumes the input; window/hash contents are outside this harness)", "<[u16]>::fill -> write_bytes model"])


h("kd7_gzip_header_none_s1", D + "/kd7_machine.rs", "deflate::verif_kani::kd7_machine", ["C20", "C05", "C07"], kernel="KD7", tier="thorough",
  expect_s=300, timeout=2400, weight=3, mem_gb=24, unwindset=[("verif_kani::model_fold", None, 40)],
  functions=["deflate::deflate (gzip header states, trailer)", "flush_pending", "gz_header::flags", "deflate::bound (gzip wrapper length)"],
  bounds="gzip wrapper, all levels, header with symbolic text/time/os and any i32 hcrc, no optional field; pending 16 bytes, 1 byte of room first then 44; "
         "deflateBound's wrapper length compared with the bytes written (the variants with extra/name fields ran out of memory at 24 GB and are not registered)",
  assumptions=RUNSTUB + ["crc32 -> byte-wise fold model (expected value computed with the same function: replay-safe)", "CStr::from_ptr -> explicit-loop model"])
h("kd7_flush_bytes_unit", D + "/kd7_machine.rs", "deflate::verif_kani::kd7_machine", ["C20", "C06", "C05"], kernel="KD7", expect_s=200, timeout=1800, weight=2, mem_gb=16,
  functions=["deflate::flush_bytes", "flush_pending", "Pending::{extend,advance,remaining}"],
  bounds="pending buffer 8 bytes with any fill level and contents, field of 0..=12 symbolic bytes, output room 0..=22 in a canaried array, any starting gzindex <= 100",
  assumptions=["crc32 -> nondeterministic (header CRC value is not the subject here)"])
for _w in ("extra", "name", "comment"):
    h("kd7_gzip_resume_" + _w, D + "/kd7_machine.rs", "deflate::verif_kani::kd7_machine", ["C20", "C06"], kernel="KD7", expect_s=60, timeout=1200, weight=2, mem_gb=16,
      functions=["deflate::deflate (gzip header state %s resumed, following states, trailer)" % _w.capitalize(), "flush_bytes"],
      bounds="gzip %s field of 5 symbolic bytes, 0..=4 of them already emitted by earlier calls (gzindex), ample output" % _w,
      assumptions=RUNSTUB + ["crc32 -> nondeterministic", "CStr::from_ptr -> explicit-loop model",
                             "pre-state: status = the field's state, gzindex = bytes of the field already emitted (what flush_bytes leaves behind when it stops early)"])

h("kd7_gzip_start_stale_gzindex", D + "/kd7_machine.rs", "deflate::verif_kani::kd7_machine", ["C14", "C20"], kernel="KD7", expect_s=60, timeout=1200, weight=2, mem_gb=16,
  functions=["deflate::deflate (gzip header from Status::GZip: fixed part, Name/Comment, trailer)", "flush_bytes"],
  bounds="new gzip member (status GZip) with a stale gzindex 0..=3 left by an abandoned member, name or comment of 3 symbolic chars, no extra field, ample output",
  assumptions=RUNSTUB + ["crc32 -> nondeterministic", "CStr::from_ptr -> explicit-loop model"])
for _r, _a in ((0, 1), (1, 1), (1, 40), (2, 1), (3, 40)):
    h("kd7_gzip_hcrc_room%d_out%d" % (_r, _a), D + "/kd7_machine.rs", "deflate::verif_kani::kd7_machine", ["C20", "C06"], kernel="KD7", expect_s=60, timeout=1200, weight=2, mem_gb=16,
      functions=["deflate::deflate (Status::Hcrc, flush_pending, trailer)"],
      bounds="gzip header with a name that leaves %d byte(s) of room in the 32-byte pending buffer when the Hcrc state is reached, any CRC of the earlier header bytes, "
             "first call with %d byte(s) of output space, second call with ample space" % (_r, _a),
      assumptions=RUNSTUB + ["crc32 -> order-sensitive byte-wise fold model", "CStr::from_ptr -> explicit-loop model"])
h("kd7_starved_flush_is_completed_by_the_next_call", D + "/kd7_machine.rs", "deflate::verif_kani::kd7_machine", ["C11", "C06", "C15"], kernel="KD7", expect_s=120, timeout=1200, weight=2, mem_gb=16,
  functions=["deflate::deflate (last_flush / duplicate-flush logic, NeedMore with avail_out == 0, marker emission)"],
  bounds="raw stream in status Busy, any previous flush value incl. -1/-2, any flush but NoFlush, 3 input bytes; call 1 with one byte of space (the compress function runs out of space), call 2 with 15 bytes and no input",
  assumptions=["algorithm::run -> contract stub: takes all input; with one byte of space fills it, leaves data buffered, NeedMore; otherwise completes per flush"])
h("kd7_refused_call_without_space_is_harmless", D + "/kd7_machine.rs", "deflate::verif_kani::kd7_machine", ["C06"], kernel="KD7", expect_s=120, timeout=1200, weight=2, mem_gb=16,
  functions=["deflate::deflate (avail_out == 0 rejection, last_flush bookkeeping)"],
  bounds="raw stream in status Busy with buffered input, any previous flush value of lower rank, any flush but NoFlush; call 1 with avail_out == 0, call 2 with 16 bytes",
  assumptions=["algorithm::run -> contract stub (as above)"])
h("ka3_default_allocator_fallback_is_a_matched_pair", "zlib-rs/src/allocate/verif_kani.rs", "allocate::verif_kani", ["C18"], kernel="KA1", expect_s=10, timeout=300,
  functions=["z_stream::configure_default_rust_allocator", "z_stream::configure_allocator"], bounds="every subset of {zalloc, zfree} supplied by the caller",
  assumptions=["the harness repeats the 3-line prologue shared by deflate::init / inflate::init / inflateBackInit (init itself is not encodable)"])
h("ki8_reset_forgets_header_window_bits", I + "/ki8_entry.rs", "inflate::verif_kani::ki8_entry", ["C14", "C03"], kernel="KI8", expect_s=60, timeout=900, unwindset=DISPATCH_US(3),
  functions=["State::dispatch (mode Head with windowBits 0)", "inflate::reset", "inflate::reset_keep"],
  bounds="zlib wrapper, windowBits 0 at init, any valid zlib header without FDICT (every CINFO), then inflateReset; then an explicit size and another reset",
  assumptions=STEP_ASSUME)
h("ki8_copy_refuses_a_borrowed_window", I + "/ki8_entry.rs", "inflate::verif_kani::ki8_entry", ["C02", "C14", "C16", "C18"], kernel="KI8", expect_s=60, timeout=900,
  functions=["inflate::copy (argument/state checks before the allocation)", "Window::clone_to"],
  bounds="source stream as inflateBackInit leaves it (512-byte caller window), counting allocator that would succeed")
h("ki8_sync_then_inflate", I + "/ki8_entry.rs", "inflate::verif_kani::ki8_entry", ["C15", "C16"], kernel="KI8", expect_s=60, timeout=900,
  functions=["inflate::sync", "inflate::inflate", "inflate::reset", "State::dispatch (TypeDo, Stored, CopyBlock, Check, Length, Done)"],
  bounds="any running totals < 2^40, concrete marker + final stored block with 2 symbolic data bytes", assumptions=STEP_ASSUME)

T4 = "zlib-rs/src/inflate/inftrees/verif_kani.rs"
T4P = "inflate::inftrees::verif_kani"
h("ki4_table_6sym_4bits_root2", T4, T4P, ["C03", "C02"], kernel="KI4", tier="thorough", expect_s=600, timeout=3600, weight=3, mem_gb=24,
  functions=["inftrees::inflate_table (CodeType::Dists)"],
  bounds="every length vector of 6 symbols with lengths 0..=4, root 2, table/work passed as 32/8-entry slices; symbolic 4-bit string decoded through "
         "root + sub-table == canonical code (RFC 1951 3.2.2), val/op = RFC base/extra")
h("ki4_table_5sym_3bits_root2", T4, T4P, ["C03", "C02"], kernel="KI4", expect_s=200, timeout=1800, weight=2, mem_gb=16,
  functions=["inftrees::inflate_table (CodeType::Dists)"], bounds="every length vector of 5 symbols with lengths 0..=3, root 2")
h("ki4_table_concrete_clen_code", T4, T4P, ["C03"], kernel="KI4", expect_s=30, timeout=600,
  functions=["inftrees::inflate_table (CodeType::Codes)"], bounds="the concrete code-length code of the CodeLens harnesses (concrete run; ties the hand-written table to the real builder)")

h("ka2_deflate_end_releases_once", E, EP, ["C18", "C06"], kernel="KA2", expect_s=15, timeout=600,
  functions=["deflate::end", "Allocator::allocate_slice_raw", "Allocator::deallocate"],
  bounds="typed state whose block came from a (misaligning) user allocator through the real shim, every Status value")
h("ka2_inflate_end_releases_once", I + "/ki8_entry.rs", "inflate::verif_kani::ki8_entry", ["C18"], kernel="KA2", expect_s=15, timeout=600,
  functions=["inflate::end", "Allocator::allocate_slice_raw", "Allocator::deallocate"],
  bounds="typed state whose block came from a (misaligning) user allocator through the real shim, 6 representative modes, any wrap")

# =================================================================================================================
# Tier assignment.  `props` of a harness = every property it is evidence for (all of them run in the thorough tier).
# QUICK[pid] = the subset run by `./check <pid> --tier quick` (the check one would run on every change): chosen so that
# each property's quick check stays within ~10 minutes of wall time on 16 cores while keeping every kernel that is
# unique to the property.
# =================================================================================================================
# measured peak RSS (GB, rounded up) of the heavier harnesses' CBMC process, used by the scheduler's memory-aware admission
# (lib/runner.py); harnesses without an entry are estimated at a third of their cap.  Values come from evidence/*.json.
RSS_MEASURED = {"kd6_stored_flush_tail_k3": 15, "kd6_stored_window_holds_the_latest_input": 12, "kb1_back_lit1_d16": 6, "kb1_back_lit1_d29": 9, "kb1_back_lit1_d4": 6, "kb1_back_lit9_d5": 11, "kd10_reset_equals_fresh": 9,
                "kd4_build_tree_bl_single": 6, "kd6_stored_one_call": 19, "kd6_stored_resume": 16, "kd6_stored_tiny_pending": 16, "kd7_gzip_header_none_s1": 17,
                "kd7_gzip_start_stale_gzindex": 10, "kd7_zlib_starved_finish": 16, "kd7_zlib_wrapper": 10, "kd8_quick_sync_n3": 10, "kd8_quick_finish_n5": 12,
                "ki2_copy_match_twin_small": 10, "ki2_extend_from_window_twin": 9, "ki5a_head_w3_n2": 12, "ki5a_head_w7_n2": 16,
                "ki5c_typedo_b7_i0": 9, "ki7_inflate_copyblock": 14, "kd9_longest_match_any_chain_length": 11, "ki6_fast_loop_room": 12,
                "ki5d_match_step_dispatch": 10, "ki5d_match_step_friends": 10, "kd4_build_tree_bl_k4": 8, "kc9_adler_len_4_5": 8}
for _n, _v in RSS_MEASURED.items():
    if _n in HARNESSES and "rss_gb" not in HARNESSES[_n]:
        HARNESSES[_n]["rss_gb"] = _v
    if _n in HARNESSES and HARNESSES[_n].get("mem_gb", 12) < _v + 4:
        HARNESSES[_n]["mem_gb"] = _v + 6

QUICK = {
    "C01": ["kd6_stored_window_holds_the_latest_input", "kd4_build_bl_tree_announces_every_used_length", "kd3_fizzle_matches_long_next", "kd3_tail_medium", "kd9_fill_window_slide_keeps_deferred_match", "kd9_slide_hash_chain", "kd4_gen_codes_n5", "kd4_build_tree_bl_k3", "kd5_send_tree_n4", "kd8_quick_finish_n1", "kd8_quick_finish_n3", "kd2_static_encode_matches_rfc", "ki5d_fixed_tables_are_rfc",
            "kd1_emitters_one_step", "ki5c_stored", "kd10_reset_equals_fresh"],
    "C02": ["ki1_bitreader_refill_model", "ki2_copy_match_twin_small", "ki2_extend_from_window_twin", "ki3_window_extend_ring",
            "ki5b_extra", "ki5b_name_entry_length", "ki5b_comment_entry_length", "ki5b_name", "ki5c_stored", "ki5d_len_step", "ki6_fast_loop_room", "ki7_inflate_copyblock",
            "kb1_back_lit1_d16", "ki5c_lenlens_order"],
    "C03": ["ki5b_fixed_part", "ki5c_codelens_16_exact", "ki5c_codelens_17_exact", "ki5c_codelens_18_exact", "ki5c_codelens_18_over", "ki5d_match_guard_dispatch", "ki5d_match_guard_friends", "ki5a_head_w1_n2", "ki5a_head_w3_n2", "ki5a_head_w2_n2", "ki5a_dictid_n4", "ki5c_typedo_b3_i0", "ki5c_typedo_b7_i0", "ki5c_stored", "ki5c_table",
            "ki5c_lenlens_order", "ki5d_len_step", "ki5d_dist_step_friends", "ki5d_fixed_tables_are_rfc", "ki5e_check_zlib",
            "ki5e_length_gzip", "ki5b_hcrc"],
    "C04": ["ki6_fast_loop_match_from_a_wrapped_window", "ki5d_dist_long_code_dispatch", "ki1_bitreader_split", "ki5c_copyblock_resume", "ki5c_stored_trees", "ki5d_match_guard_dispatch", "ki5c_codelens_17_suspend", "ki5c_lenlens_order", "ki5b_extra", "ki5d_dist_step_friends",
            "ki7_inflate_copyblock", "ki3_window_extend_ring", "ki5c_typedo_b2_i0"],
    "C05": ["kd3_compress_block_general_two_symbols", "kd4_build_bl_tree_announces_every_used_length", "kd6_stored_pending_block_fits_len16", "kd4_gen_codes_n5", "kd4_build_tree_bl_k2", "kd4_build_tree_bl_k3", "kd4_build_tree_bl_single", "kd5_send_tree_n4", "kd5_send_tree_z11_n13", "kd1_bitwriter_pack", "kd1_emitters_one_step", "kd1_bitwriter_full_register", "kd10_prime",
            "kd2_static_encode_matches_rfc", "kd2_static_ltree_is_rfc_fixed_code", "kd7_zlib_wrapper", "kd8_quick_finish_n1",
            "kd10_set_dictionary_protocol"],
    "C06": ["kd10_params_leaving_level0_settles_the_hash_debt", "kd10_prime_room0", "kd10_prime_room7", "kd10_prime_room8", "kd7_refused_call_without_space_is_harmless", "kd7_starved_flush_is_completed_by_the_next_call", "kd7_zlib_wrapper", "kd7_zlib_starved_finish", "kd10_prime", "kd10_params_tune", "kd10_set_header",
            "kd8_quick_finish_n1", "ka1_alloc_overflow_and_null"],
    "C07": ["kd11_bound_counts_every_gzip_header_field", "kd11_bound_counts_the_dictionary_id", "kd8_quick_finish_n1", "kd8_quick_finish_n3", "kd7_gzip_header_none_s1"],  # kd6_stored_one_call (580 s, 18 GB): thorough tier
    "C08": ["ki3_window_extend_checksum_order", "ki5e_check_zlib", "ki5e_check_gzip", "ki5e_length_gzip", "ki5b_hcrc", "ki5b_fixed_part", "ki5b_name",
            "ki7_inflate_copyblock", "kc9_adler_len_0_1_2_3"],
    "C09": ["kc9_crc32_dispatch_passes_the_start_value", "kc9_adler_tail_reduces_any_sum", "kc9_crc_tables", "kc9_crc_braid_table", "kc9_crc_naive_step", "kc9_crc_braid_short",
            "kc9_crc_combine_len0_1_2", "kc9_multmodp_identity", "kc9_adler_len_0_1_2_3"],
    "C10": ["kd10c_symbuf_clone_to", "ki2_copy_match_twin_small", "ki2_extend_from_window_twin", "ki3_window_extend_ring", "kd10_reset_equals_fresh",
            "ki8_reset_equals_fresh"],
    "C11": ["kd6_stored_flush_tail_k3", "kd3_tail_slow", "kd3_tail_fast", "kd3_tail_huff", "kd7_starved_flush_is_completed_by_the_next_call", "kd7_zlib_wrapper", "kd8_quick_sync_n3", "kd1_emitters_one_step"],
    "C13": ["ki8_reset_keep_forgets_the_stream", "ki5a_head_w1_n2", "ki5a_head_w5_n2", "ki5a_dictid_n3", "ki5a_dictid_n4", "ki5a_dictid_n4_have", "ki5a_set_dictionary", "ki3_get_dictionary_order", "kd7_zlib_wrapper", "kd10_set_dictionary_protocol"],
    "C14": ["ki8_copy_refuses_a_borrowed_window", "ki8_reset_forgets_header_window_bits", "kd10_reset_equals_fresh", "ki8_reset_equals_fresh", "ka2_deflate_copy_alloc_failure", "kd10c_pending_clone_to",
            "kd10c_symbuf_clone_to", "ki8c_window_clone_to", "kd7_gzip_start_stale_gzindex"],
    "C15": ["kd7_starved_flush_is_completed_by_the_next_call", "kd7_flush_that_fills_the_buffer_is_repeated", "ki7_inflate_primed_32_then_fast", "ki7_inflate_copyblock", "ki7_inflate_terminal", "ki5c_copyblock_resume", "ki1_bitreader_refill_model", "ki8_sync",
            "ki8_sync_then_inflate", "kd7_zlib_wrapper"],
    "C16": ["kd10_get_dictionary_is_the_window_tail", "ki8_reset_keep_forgets_the_stream", "kd7_flush_that_fills_the_buffer_is_repeated", "kd7_finish_after_prime_on_a_finished_stream", "ki8_small_entry_points", "ki8_sync", "ki8_reset_equals_fresh", "ki5a_set_dictionary", "kd10_prime", "kd10_params_tune",
            "kd10_set_header", "kd10_set_dictionary_protocol", "ki7_inflate_terminal", "ki5e_terminal_modes"],
    "C18": ["ki8_copy_refuses_a_borrowed_window", "ka1_default_allocator_refuses_oversized_requests", "ka3_default_allocator_fallback_is_a_matched_pair", "ka1_alloc_shim", "ka1_alloc_overflow_and_null", "ka2_deflate_copy_alloc_failure", "ka2_deflate_end_releases_once",
            "ka2_inflate_end_releases_once"],
    "C19": ["kb1_back_output_refused", "kb1_fast_back_beyond_window_w100", "kb1_back_fast_toofar_s1", "kb1_back_lit1_d0", "kb1_back_lit1_d4", "kb1_back_lit1_d16", "kb1_back_lit1_d29", "kb1_back_lit1_d30",
            "kb1_back_lit9_d5", "ki2_copy_match_back"],
    "C20": ["ki5b_fixed_part", "ki5b_extra", "ki5b_name_entry_length", "ki5b_comment_entry_length", "ki5b_name", "ki5b_comment", "ki5b_hcrc", "kd10_set_header", "kd7_flush_bytes_unit",
            "kd7_gzip_resume_extra", "kd7_gzip_resume_name", "kd7_gzip_resume_comment", "kd7_gzip_hcrc_room1_out1", "kd7_gzip_hcrc_room0_out1", "kd7_gzip_hcrc_room3_out40"],
}
for _pid, _hs in QUICK.items():
    for _n in _hs:
        assert _n in HARNESSES, _n
        if _pid not in HARNESSES[_n]["props"]:
            HARNESSES[_n]["props"].append(_pid)
