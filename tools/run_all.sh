#!/bin/bash
# usage: tools/run_all.sh quick|thorough [ids...]   -- runs every claimed check sequentially, prints a summary
TIER=${1:-quick}; shift
cd "$(dirname "$(readlink -f "$0")")/.."
IDS=${@:-$(python3 -c "import json; print(' '.join(c['property_id'] for c in json.load(open('MANIFEST.json'))['checks']))")}
mkdir -p logs/all
for p in $IDS; do
  t0=$(date +%s)
  ./check $p --tier $TIER > logs/all/$p.$TIER.log 2>&1; rc=$?
  echo "$p tier=$TIER exit=$rc wall=$(( $(date +%s) - t0 ))s $(grep -c '\[OK\]' logs/all/$p.$TIER.log) ok, $(grep -c 'INCONCLUSIVE' logs/all/$p.$TIER.log) inconclusive, $(grep -c '^VIOLATION' logs/all/$p.$TIER.log) violations"
done
