#!/bin/bash
# usage: seed_verify.sh <seed-id> <agent-out-dir>   -- independent confirmation of a seeded change in a fresh worktree
# 1. patch applies to /repo HEAD  2. pinned suite passes with it  3. demo fails with it  4. demo passes without it
set -u
ID=$1; OUT=$2
WT=/tmp/sv_$ID
export CARGO_NET_OFFLINE=true CARGO_TARGET_DIR=${SV_TARGET:-/tmp/sv_target}
rm -rf $WT; git -C /repo worktree prune; git -C /repo worktree add -q --detach $WT HEAD || exit 9
cd $WT
DEMO=$OUT/seed_demo.rs; [ -f "$DEMO" ] || DEMO=$(ls $OUT/*.rs | head -1)
PKG=$(grep -o "\-p [a-z-]*" $OUT/demo_cmd.txt | head -1 | cut -d' ' -f2); PKG=${PKG:-test-libz-rs-sys}
TESTNAME=$(basename $DEMO .rs)
res() { echo "$1" | tee -a $WT/../sv_$ID.result; }
rm -f /tmp/sv_$ID.result
git apply --check $OUT/patch.diff && git apply $OUT/patch.diff || { res "patch_applies=false"; exit 1; }
res "patch_applies=true"
SUITE=$(cargo nextest run --workspace --no-fail-fast --tool-config-file pb:/w/lib/nextest.toml --profile pb --test-threads 8 --offline 2>&1 | grep -E "Summary" | tail -1)
res "suite_with_change=$SUITE"
mkdir -p $PKG/tests; cp $DEMO $PKG/tests/$TESTNAME.rs
cargo test --offline -p $PKG --test $TESTNAME > /tmp/sv_$ID.demo_with.log 2>&1; RC1=$?
res "demo_with_change_rc=$RC1 ($(grep -E '^test result' /tmp/sv_$ID.demo_with.log | tail -1))"
git apply -R $OUT/patch.diff
cargo test --offline -p $PKG --test $TESTNAME > /tmp/sv_$ID.demo_without.log 2>&1; RC2=$?
res "demo_without_change_rc=$RC2 ($(grep -E '^test result' /tmp/sv_$ID.demo_without.log | tail -1))"
cd /; git -C /repo worktree remove --force $WT
