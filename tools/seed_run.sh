#!/bin/bash
# usage: seed_run.sh <seed-id> <harness> [<harness>...]  |  seed_run.sh <seed-id> --prop <Cxx>
# Runs checks against a seeded change: fresh worktree of /repo HEAD + seeded/<id>/patch.diff, pointed to with VERIF_REPO
# (equivalent to `git -C /repo apply`, but does not disturb checks running against /repo at the same time).
ID=$1; shift
WT=/tmp/sr_$ID
cd "$(dirname "$(readlink -f "$0")")/.."
rm -rf $WT; git -C /repo worktree prune; git -C /repo worktree add -q --detach $WT HEAD || exit 9
git -C $WT apply /verif/seeded/$ID/patch.diff || { echo "patch does not apply"; git -C /repo worktree remove --force $WT; exit 8; }
if [ "$1" == "--prop" ]; then
  VERIF_REPO=$WT ./check $2 --no-evidence 2>&1 | sed "s/property=$2/property=$2(seed $ID)/"
  rc=${PIPESTATUS[0]}
else
  ARGS=""; for h in "$@"; do ARGS="$ARGS --only $h"; done
  VERIF_REPO=$WT ./check SEED$ID $ARGS
  rc=$?
fi
git -C /repo worktree remove --force $WT
rm -rf /verif/replays/SEED$ID
exit $rc
