#!/usr/bin/env python3
"""usage: seed_store.py <seed-id> <property> <agent-out-dir> <sv-result-file> "<change>" "<needs>"
Stores a confirmed seeded change under /verif/seeded/<id>/ (patch.diff, demonstration, notes, confirmation, meta.json)."""
import json, os, shutil, sys
sid, prop, out, res, change, needs = sys.argv[1:7]
d = os.path.join(os.path.dirname(os.path.dirname(os.path.abspath(__file__))), "seeded", sid)
os.makedirs(d, exist_ok=True)
for f in os.listdir(out):
    if os.path.isfile(os.path.join(out, f)):
        shutil.copy(os.path.join(out, f), os.path.join(d, f))
conf = [l.rstrip("\n") for l in open(res)]
assert any(l.startswith("patch_applies=true") for l in conf)
assert any("353 passed" in l for l in conf if l.startswith("suite_with_change"))
assert any(l.startswith("demo_with_change_rc=101") for l in conf) and any(l.startswith("demo_without_change_rc=0") for l in conf)
open(os.path.join(d, "confirmation.txt"), "w").write("\n".join(conf) + "\n")
json.dump({"seed": sid, "breaks_property": prop, "change": change, "needs_to_manifest": needs,
           "origin": "independent sub-agent given only the property text and a scratch worktree",
           "confirmed_by": "tools/seed_verify.sh in a fresh worktree of /repo HEAD (patch applies; pinned suite 353/353 passes with the change; demo fails with it and passes without)",
           "confirmation": conf, "detected_by": [], "detection_status": "pending"}, open(os.path.join(d, "meta.json"), "w"), indent=1)
print("stored", d)
