// gzip header with a file name longer than the pending buffer, drained through small output chunks:
// the stream must still be a valid gzip member whose FNAME field is the name supplied
use libz_rs_sys::*;
use core::mem::MaybeUninit;

fn run(name_len: usize, chunk: usize) -> (Vec<u8>, Vec<u8>) {
    let mut name: Vec<u8> = (0..name_len).map(|i| b'a' + (i % 26) as u8).collect();
    name.push(0);
    let mut head = MaybeUninit::<gz_header>::zeroed();
    let mut out = vec![0u8; 4096];
    let mut s = MaybeUninit::<z_stream>::zeroed();
    let produced;
    unsafe {
        let head = head.assume_init_mut();
        head.name = name.as_mut_ptr();
        assert_eq!(deflateInit2_(s.as_mut_ptr(), 6, Z_DEFLATED, 31, 1, Z_DEFAULT_STRATEGY, zlibVersion(), core::mem::size_of::<z_stream>() as i32), Z_OK);
        let s = s.assume_init_mut();
        assert_eq!(deflateSetHeader(s, head), Z_OK);
        let data = b"hello";
        s.next_in = data.as_ptr() as *mut u8;
        s.avail_in = data.len() as u32;
        s.next_out = out.as_mut_ptr();
        let mut rc = Z_OK;
        let mut guard = 0;
        while rc == Z_OK && guard < 10000 {
            assert!(s.total_out as usize + chunk <= out.len(), "deflate keeps producing output: {} bytes so far (chunk {chunk})", s.total_out);
            s.avail_out = chunk as u32;
            rc = deflate(s, Z_FINISH);
            guard += 1;
        }
        assert_eq!(rc, Z_STREAM_END);
        produced = s.total_out as usize;
        deflateEnd(s);
    }
    out.truncate(produced);
    (out, name)
}

#[test]
fn long_name_small_chunks() {
    for chunk in [4096usize, 64, 7, 1] {
        let (out, name) = run(700, chunk);
        assert_eq!(&out[..3], &[0x1f, 0x8b, 8]);
        assert_eq!(out[3] & 8, 8, "FNAME");
        assert_eq!(&out[10..10 + name.len()], &name[..], "file name field, chunk {chunk}");
    }
}
