//! Demonstration for property C19: for a valid raw deflate stream inflateBack must hand the output
//! callback exactly the bytes that inflate produces, however the input callback slices the input.
//!
//! The stream is valid for a 512 byte window (windowBits = 9):
//!
//!   * a stored block of 513 bytes: the 512 byte window is flushed once and one byte of the
//!     second pass has been written when the block ends;
//!   * a final fixed-huffman block that starts with a match of length 40 at distance 2, followed
//!     by 40 literals. The match starts one byte before the start of the current pass (so its
//!     first byte is the last byte of the flushed window) and it overlaps itself (length > distance),
//!     i.e. it is a run with period 2.
//!
//! When the whole input is handed over in one slice the second block is decoded by inflateBack's
//! fast loop; with one-byte slices it is decoded by the slow path.

use core::ffi::{c_int, c_uchar, c_uint, c_void};
use core::mem::MaybeUninit;

use libz_rs_sys::*;

/// LSB-first bit writer, as used by deflate.
struct BitWriter {
    out: Vec<u8>,
    acc: u64,
    n: u32,
}

impl BitWriter {
    fn new() -> Self {
        Self {
            out: Vec::new(),
            acc: 0,
            n: 0,
        }
    }

    /// plain value, least significant bit first
    fn bits(&mut self, value: u32, count: u32) {
        self.acc |= (value as u64) << self.n;
        self.n += count;
        while self.n >= 8 {
            self.out.push(self.acc as u8);
            self.acc >>= 8;
            self.n -= 8;
        }
    }

    /// huffman code, most significant bit first
    fn code(&mut self, code: u32, count: u32) {
        for i in (0..count).rev() {
            self.bits((code >> i) & 1, 1);
        }
    }

    fn align(&mut self) {
        if self.n > 0 {
            self.bits(0, 8 - self.n);
        }
    }

    fn finish(mut self) -> Vec<u8> {
        self.align();
        self.out
    }
}

/// literal with the fixed code
fn fixed_literal(w: &mut BitWriter, b: u8) {
    if b < 144 {
        w.code(0x30 + b as u32, 8);
    } else {
        w.code(0x190 + (b as u32 - 144), 9);
    }
}

const STORED_LEN: usize = 700;
const MATCH_LEN: usize = 10;
const MATCH_DIST: usize = 600;
const TAIL: &[u8] = b"0123456789abcdefghijklmnopqrstuvwxyzABCD";

fn stored_payload() -> Vec<u8> {
    // no short period, so that bytes taken from a wrong place are visible
    (0..STORED_LEN as u32)
        .map(|i| (i.wrapping_mul(7) ^ (i >> 3)).wrapping_add(3) as u8)
        .collect()
}

fn make_stream() -> (Vec<u8>, Vec<u8>) {
    let payload = stored_payload();
    let mut w = BitWriter::new();

    // stored block, not last
    w.bits(0, 1);
    w.bits(0b00, 2);
    w.align();
    w.bits(STORED_LEN as u32, 16);
    w.bits(!(STORED_LEN as u32) & 0xFFFF, 16);
    for &b in &payload {
        w.bits(b as u32, 8);
    }

    // fixed block, last
    w.bits(1, 1);
    w.bits(0b01, 2);
    // length 40: symbol 273 (35..=42, 3 extra bits); symbols 256..=279 have 7 bit codes from 0
    w.code(264 - 256, 7); // length 10
    w.code(18, 5); // distance 513..=768, 8 extra bits
    w.bits(600 - 513, 8);
    for &b in TAIL {
        fixed_literal(&mut w, b);
    }
    // end of block
    w.code(0, 7);

    let mut expected = payload;
    for _ in 0..MATCH_LEN {
        let b = expected[expected.len() - MATCH_DIST];
        expected.push(b);
    }
    expected.extend_from_slice(TAIL);

    (w.finish(), expected)
}

struct InputCtx<'a> {
    data: &'a [u8],
    pos: usize,
    chunk: usize,
}

unsafe extern "C" fn pull_cb(desc: *mut c_void, buf: *mut *const c_uchar) -> c_uint {
    let ctx = &mut *desc.cast::<InputCtx>();

    if ctx.pos >= ctx.data.len() {
        *buf = core::ptr::null();
        return 0;
    }

    let chunk = Ord::min(ctx.chunk, ctx.data.len() - ctx.pos);
    *buf = ctx.data[ctx.pos..].as_ptr();
    ctx.pos += chunk;
    chunk as c_uint
}

unsafe extern "C" fn push_cb(desc: *mut c_void, buf: *mut c_uchar, len: c_uint) -> c_int {
    let out = &mut *desc.cast::<Vec<u8>>();
    out.extend_from_slice(core::slice::from_raw_parts(buf as *const u8, len as usize));
    0
}

fn inflate_back(input: &[u8], window_bits: c_int, chunk: usize) -> (c_int, Vec<u8>) {
    let mut window = vec![0xAAu8; 1 << window_bits];
    let mut in_ctx = InputCtx {
        data: input,
        pos: 0,
        chunk,
    };
    let mut output: Vec<u8> = Vec::new();

    unsafe {
        let mut strm = MaybeUninit::<z_stream>::zeroed();
        let ret = inflateBackInit_(
            strm.as_mut_ptr(),
            window_bits,
            window.as_mut_ptr(),
            zlibVersion(),
            core::mem::size_of::<z_stream>() as c_int,
        );
        assert_eq!(ret, Z_OK);

        let ret = inflateBack(
            strm.as_mut_ptr(),
            Some(pull_cb),
            &mut in_ctx as *mut InputCtx as *mut c_void,
            Some(push_cb),
            &mut output as *mut Vec<u8> as *mut c_void,
        );

        assert_eq!(inflateBackEnd(strm.as_mut_ptr()), Z_OK);

        (ret, output)
    }
}

fn inflate_reference(input: &[u8], window_bits: c_int) -> (c_int, Vec<u8>) {
    let mut output = vec![0u8; 1 << 16];

    unsafe {
        let mut strm = MaybeUninit::<z_stream>::zeroed();
        let ret = inflateInit2_(
            strm.as_mut_ptr(),
            -window_bits,
            zlibVersion(),
            core::mem::size_of::<z_stream>() as c_int,
        );
        assert_eq!(ret, Z_OK);

        let strm = strm.assume_init_mut();
        strm.next_in = input.as_ptr() as *mut u8;
        strm.avail_in = input.len() as _;
        strm.next_out = output.as_mut_ptr();
        strm.avail_out = output.len() as _;

        let ret = inflate(strm, Z_FINISH);
        let produced = strm.total_out as usize;
        assert_eq!(inflateEnd(strm), Z_OK);

        output.truncate(produced);
        (ret, output)
    }
}


#[test]
fn far() {
    // windowBits 9: 700 stored bytes, then a match of length 10 at distance 600 (beyond the 512-byte window).  inflateBack
    // cannot serve that distance from its window, so it must reject the stream, and the verdict and the bytes delivered
    // must not depend on how the input callback slices the input.
    let (stream, expected) = make_stream();
    let (r, o) = inflate_reference(&stream, 9);
    println!("inflate one call: ret {r} len {} equals-unbounded-window-expectation {}", o.len(), o == expected);
    let mut first = None;
    for chunk in [1usize, 14, 15, 16, usize::MAX] {
        let (ret, out) = inflate_back(&stream, 9, chunk);
        println!("inflateBack chunk {chunk}: ret {ret} len {}", out.len());
        assert_eq!(ret, Z_DATA_ERROR, "input slices of {chunk} bytes");
        assert_eq!(out, expected[..700], "the stored block is still delivered, nothing else");
        match &first {
            None => first = Some((ret, out)),
            Some(f) => assert_eq!(*f, (ret, out)),
        }
    }
}
