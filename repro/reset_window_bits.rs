// C14: a reset stream behaves like a freshly initialised one.  inflateInit2(strm, 0) takes the window size from the zlib
// header; after inflateReset the next stream's header must decide again (zlib.h: inflateReset "is equivalent to inflateEnd
// followed by inflateInit").
use core::mem::MaybeUninit;
use libz_rs_sys::*;

fn deflate_with(window_bits: i32, data: &[u8]) -> Vec<u8> {
    let mut out = vec![0u8; 256];
    let mut s = MaybeUninit::<z_stream>::zeroed();
    unsafe {
        assert_eq!(deflateInit2_(s.as_mut_ptr(), 6, Z_DEFLATED, window_bits, 8, Z_DEFAULT_STRATEGY, zlibVersion(), core::mem::size_of::<z_stream>() as i32), Z_OK);
        let s = s.assume_init_mut();
        s.next_in = data.as_ptr() as *mut u8; s.avail_in = data.len() as u32;
        s.next_out = out.as_mut_ptr(); s.avail_out = out.len() as u32;
        assert_eq!(deflate(s, Z_FINISH), Z_STREAM_END);
        let n = s.total_out as usize;
        deflateEnd(s);
        out.truncate(n);
    }
    out
}

unsafe fn inflate_all(s: &mut z_stream, data: &[u8]) -> (i32, Vec<u8>) {
    let mut out = vec![0u8; 256];
    s.next_in = data.as_ptr() as *mut u8; s.avail_in = data.len() as u32;
    s.next_out = out.as_mut_ptr(); s.avail_out = out.len() as u32;
    let rc = inflate(s, Z_FINISH);
    let n = out.len() - s.avail_out as usize;
    out.truncate(n);
    (rc, out)
}

#[test]
fn reset_after_small_window_stream_accepts_a_default_stream() {
    let small = deflate_with(9, b"first stream, small window");
    let large = deflate_with(15, b"second stream, default window");
    assert_eq!(small[0] >> 4, 1);
    assert_eq!(large[0] >> 4, 7);
    unsafe {
        // reference: a fresh decoder with windowBits 0 accepts the second stream
        let mut f = MaybeUninit::<z_stream>::zeroed();
        assert_eq!(inflateInit2_(f.as_mut_ptr(), 0, zlibVersion(), core::mem::size_of::<z_stream>() as i32), Z_OK);
        let f = f.assume_init_mut();
        assert_eq!(inflate_all(f, &large), (Z_STREAM_END, b"second stream, default window".to_vec()));
        inflateEnd(f);

        let mut s = MaybeUninit::<z_stream>::zeroed();
        assert_eq!(inflateInit2_(s.as_mut_ptr(), 0, zlibVersion(), core::mem::size_of::<z_stream>() as i32), Z_OK);
        let s = s.assume_init_mut();
        assert_eq!(inflate_all(s, &small).0, Z_STREAM_END);
        assert_eq!(inflateReset(s), Z_OK);
        assert_eq!(inflate_all(s, &large), (Z_STREAM_END, b"second stream, default window".to_vec()), "the reset decoder behaves like the fresh one");
        inflateEnd(s);
    }
}
