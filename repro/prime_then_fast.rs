use core::mem::MaybeUninit;
use libz_rs_sys::*;

#[test]
fn prime_then_fast() {
    let mut strm = MaybeUninit::<z_stream>::zeroed();
    let err = unsafe { inflateInit2_(strm.as_mut_ptr(), -15, zlibVersion(), core::mem::size_of::<z_stream>() as _) };
    assert_eq!(err, Z_OK);
    let strm = unsafe { strm.assume_init_mut() };
    // 32 primed bits: final fixed block (1, 01), end-of-block (7 zero bits), zeros
    assert_eq!(unsafe { inflatePrime(strm, 16, 0x0003) }, Z_OK);
    assert_eq!(unsafe { inflatePrime(strm, 16, 0x0000) }, Z_OK);
    let mut arena = [0x55u8; 64];
    let input = &mut arena[16..48];
    let mut out = [0u8; 1024];
    let start = input.as_mut_ptr();
    strm.next_in = start;
    strm.avail_in = input.len() as _;
    strm.next_out = out.as_mut_ptr();
    strm.avail_out = out.len() as _;
    let ret = unsafe { inflate(strm, Z_NO_FLUSH) };
    eprintln!("ret={ret} next_in-start={} avail_in={} total_in={}", strm.next_in as isize - start as isize, strm.avail_in, strm.total_in);
    assert!(strm.next_in as usize >= start as usize);
    unsafe { inflateEnd(strm) };
}
