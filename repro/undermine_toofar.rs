// inflateUndermine(strm, -1) switched the distance check off (`(!subvert) != 0` is a bitwise not: only -1 gives 0); the
// mode it selects is not implemented and the first distance that reaches before the start of the data ran into
// panic!("INFLATE_ALLOW_INVALID_DISTANCE_TOOFAR_ARRR"): a process abort through the C API.  A default build of zlib keeps the
// check on and reports Z_DATA_ERROR for the stream.
use core::mem::MaybeUninit;
use libz_rs_sys::*;

#[test]
fn too_far_distance_after_undermine_is_a_data_error() {
    for subvert in [-1, 0, 1, 2] {
        let mut s = MaybeUninit::<z_stream>::zeroed();
        unsafe {
            assert_eq!(inflateInit2_(s.as_mut_ptr(), -15, zlibVersion(), core::mem::size_of::<z_stream>() as i32), Z_OK);
            let s = s.assume_init_mut();
            let _ = inflateUndermine(s, subvert);
            // final fixed block: length 3 at distance 1 with no data before it
            let input = [0x03u8, 0x02, 0x00, 0x00, 0x00, 0x00];
            let mut out = [0u8; 64];
            s.next_in = input.as_ptr() as *mut u8;
            s.avail_in = input.len() as _;
            s.next_out = out.as_mut_ptr();
            s.avail_out = 64;
            assert_eq!(inflate(s, Z_NO_FLUSH), Z_DATA_ERROR);
            inflateEnd(s);
        }
    }
}
