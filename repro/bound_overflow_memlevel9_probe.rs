// Side observation probe (NOT the seed demo): run on the UNCHANGED tree, e.g. copy to
// test-libz-rs-sys/tests/probe.rs and
//   cargo test --offline -p test-libz-rs-sys --test probe -- --nocapture
//
// 1. memLevel 9 + Z_FIXED + preset dictionary of 32508..32767 bytes: compressed size > deflateBound.
// 2. deflateBound on a finished gzip stream (before deflateReset) forgets the gzip wrapper.
use core::mem::MaybeUninit;
use libz_rs_sys::*;

/// `n` bytes from the alphabet lo..lo+count in which no 3-byte sequence occurs twice (=> no matches)
fn no_trigram_repeat(n: usize, lo: u8, count: usize) -> Vec<u8> {
    let mut seen = std::collections::HashSet::new();
    let mut out: Vec<u8> = Vec::with_capacity(n);
    let mut rng: u64 = 0x1234_5678_9abc_def1;
    while out.len() < n {
        rng ^= rng << 13;
        rng ^= rng >> 7;
        rng ^= rng << 17;
        let start = (rng % count as u64) as usize;
        let mut pushed = false;
        for k in 0..count {
            let c = lo + ((start + k) % count) as u8;
            let l = out.len();
            if l >= 2 {
                let key = (out[l - 2], out[l - 1], c);
                if !seen.insert(key) {
                    continue;
                }
            }
            out.push(c);
            pushed = true;
            break;
        }
        assert!(pushed);
    }
    out
}

fn run(level: i32, wbits: i32, mem_level: i32, strategy: i32, dict_len: usize, n: usize) -> (usize, usize, i32) {
    // literals >= 144 cost 9 bits with the fixed code; the dictionary only uses bytes < 144
    let input = no_trigram_repeat(n, 144, 112);
    let dict: Vec<u8> = (0..dict_len).map(|i| (i % 101) as u8).collect();
    unsafe {
        let mut strm = MaybeUninit::<z_stream>::zeroed();
        let err = deflateInit2_(strm.as_mut_ptr(), level, Z_DEFLATED, wbits, mem_level, strategy,
            zlibVersion(), core::mem::size_of::<z_stream>() as i32);
        assert_eq!(err, Z_OK);
        let strm = strm.assume_init_mut();
        if dict_len > 0 {
            assert_eq!(deflateSetDictionary(strm, dict.as_ptr(), dict.len() as _), Z_OK);
        }
        let bound = deflateBound(strm, input.len() as _) as usize;
        let mut out = vec![0u8; bound + 4096];
        strm.next_in = input.as_ptr() as *mut u8;
        strm.avail_in = input.len() as _;
        strm.next_out = out.as_mut_ptr();
        strm.avail_out = out.len() as _;
        let rc = deflate(strm, Z_FINISH);
        let total = strm.total_out as usize;
        deflateEnd(strm);
        (bound, total, rc)
    }
}

#[test]
fn memlevel9_fixed_dictionary_exceeds_bound() {
    // observed on HEAD c777276:
    //   level 6 wbits  15 memLevel 9 Z_FIXED dict 32600 n  65534: bound  73739 total  73740  OVERFLOW
    //   level 6 wbits  15 memLevel 9 Z_FIXED dict 32600 n 131068: bound 147465 total 147468  OVERFLOW
    //   level 2 wbits  15 memLevel 9 Z_FIXED dict 32600 n  65534: bound  73739 total  73740  OVERFLOW
    //   level 6 wbits -15 memLevel 9 Z_FIXED dict 32600 n  65534: bound  73729 total  73730  OVERFLOW
    //   (no overflow: n 32767 [equal], level 9 [73739], no dictionary, memLevel 8)
    for &(level, wbits, ml, strat, d, n) in &[
        (6, 15, 9, Z_FIXED, 32600usize, 65534usize),
        (6, 15, 9, Z_FIXED, 32600, 32767 * 4),
        (2, 15, 9, Z_FIXED, 32600, 65534),
        (6, -15, 9, Z_FIXED, 32600, 65534),
        (6, 15, 9, Z_FIXED, 0, 65534),
        (6, 15, 8, Z_FIXED, 32600, 65534),
    ] {
        let (bound, total, rc) = run(level, wbits, ml, strat, d, n);
        println!("level {level} wbits {wbits} memLevel {ml} strat {strat} dict {d} n {n}: bound {bound} total {total} rc {rc} {}",
            if total > bound { "OVERFLOW" } else { "" });
    }
}

#[test]
fn bound_after_finish_gzip() {
    // observed on HEAD: fresh 33 total 33 after_finish 21 after_reset 33
    unsafe {
        let mut strm = MaybeUninit::<z_stream>::zeroed();
        let err = deflateInit2_(strm.as_mut_ptr(), 0, Z_DEFLATED, 31, 8, 0, zlibVersion(), core::mem::size_of::<z_stream>() as i32);
        assert_eq!(err, Z_OK);
        let strm = strm.assume_init_mut();
        let input = [7u8; 10];
        let fresh = deflateBound(strm, 10);
        let mut out = vec![0u8; 100];
        strm.next_in = input.as_ptr() as *mut u8;
        strm.avail_in = 10;
        strm.next_out = out.as_mut_ptr();
        strm.avail_out = 100;
        assert_eq!(deflate(strm, Z_FINISH), Z_STREAM_END);
        let first_total = strm.total_out;
        let after_finish = deflateBound(strm, 10);
        assert_eq!(deflateReset(strm), Z_OK);
        let after_reset = deflateBound(strm, 10);
        println!("fresh {fresh} total {first_total} after_finish {after_finish} after_reset {after_reset}");
        deflateEnd(strm);
    }
}
