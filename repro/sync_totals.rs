// after inflateSync the running totals must keep counting from where they were (zlib.h: inflateSync "total_in/total_out" are preserved)
use libz_rs_sys::*;
use core::mem::MaybeUninit;

#[test]
fn total_out_survives_inflate_sync() {
    // raw deflate: 300 x 'a', full flush, 200 x 'b', finish
    let mut comp = vec![0u8; 2048];
    let mut d = MaybeUninit::<z_stream>::zeroed();
    let mut mid = 0usize;
    let clen;
    unsafe {
        assert_eq!(deflateInit2_(d.as_mut_ptr(), 6, Z_DEFLATED, -15, 8, Z_DEFAULT_STRATEGY, zlibVersion(), core::mem::size_of::<z_stream>() as i32), Z_OK);
        let d = d.assume_init_mut();
        let a = vec![b'a'; 300];
        let b = vec![b'b'; 200];
        d.next_in = a.as_ptr() as *mut u8; d.avail_in = 300;
        d.next_out = comp.as_mut_ptr(); d.avail_out = comp.len() as u32;
        assert_eq!(deflate(d, Z_FULL_FLUSH), Z_OK);
        mid = d.total_out as usize;
        d.next_in = b.as_ptr() as *mut u8; d.avail_in = 200;
        assert_eq!(deflate(d, Z_FINISH), Z_STREAM_END);
        clen = d.total_out as usize;
        deflateEnd(d);
    }
    let mut out = vec![0u8; 1024];
    let mut s = MaybeUninit::<z_stream>::zeroed();
    unsafe {
        assert_eq!(inflateInit2_(s.as_mut_ptr(), -15, zlibVersion(), core::mem::size_of::<z_stream>() as i32), Z_OK);
        let s = s.assume_init_mut();
        // first part up to (not including) the 00 00 ff ff marker
        s.next_in = comp.as_ptr() as *mut u8; s.avail_in = (mid - 4) as u32;
        s.next_out = out.as_mut_ptr(); s.avail_out = out.len() as u32;
        let rc = inflate(s, Z_NO_FLUSH);
        assert!(rc == Z_OK || rc == Z_BUF_ERROR, "{rc}");
        assert_eq!(s.total_out, 300);
        // resynchronise on the marker
        s.avail_in = (clen - (mid - 4)) as u32;
        assert_eq!(inflateSync(s), Z_OK);
        assert_eq!(s.total_out, 300, "inflateSync keeps total_out");
        let rc = inflate(s, Z_FINISH);
        assert_eq!(rc, Z_STREAM_END);
        assert_eq!(s.total_out, 500, "total_out counts all output, before and after the sync point");
        inflateEnd(s);
    }
}
