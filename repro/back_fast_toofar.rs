// C19: inflateBack must give inflate's verdict.  A distance that reaches before the start of the data is invalid; the
// fast path of inflateBack accepted it before the window had wrapped when some output had been produced before the
// fast loop was entered (it treats the bytes written so far as "window history" a second time).
use core::ffi::{c_int, c_uint, c_void};
use core::mem::MaybeUninit;
use libz_rs_sys::*;

struct BitW { bytes: Vec<u8>, acc: u64, n: u32 }
impl BitW {
    fn new() -> Self { BitW { bytes: vec![], acc: 0, n: 0 } }
    fn bits(&mut self, v: u32, n: u32) { self.acc |= (v as u64) << self.n; self.n += n; while self.n >= 8 { self.bytes.push(self.acc as u8); self.acc >>= 8; self.n -= 8; } }
    fn huff(&mut self, code: u32, n: u32) { let mut r = 0; for i in 0..n { r |= ((code >> i) & 1) << (n - 1 - i); } self.bits(r, n); }
    fn lit(&mut self, b: u8) { if b < 144 { self.huff(0x30 + b as u32, 8) } else { self.huff(0x190 + (b as u32 - 144), 9) } }
    fn finish(mut self) -> Vec<u8> { if self.n > 0 { self.bytes.push(self.acc as u8); } self.bytes }
}

fn stream() -> Vec<u8> {
    let mut w = BitW::new();
    w.bits(1, 1); w.bits(1, 2);           // BFINAL, fixed
    w.lit(b'a');
    w.huff(1, 7);                           // length symbol 257: length 3
    w.huff(1, 5);                           // distance code 1: distance 2 (only 1 byte exists)
    for i in 0..40 { w.lit(b'b' + (i % 5) as u8); }
    w.huff(0, 7);                           // end of block
    w.finish()
}

struct In { data: Vec<u8>, pos: usize, first: usize }
unsafe extern "C" fn in_cb(d: *mut c_void, buf: *mut *const u8) -> c_uint {
    let d = &mut *(d as *mut In);
    let n = if d.pos == 0 { d.first.min(d.data.len()) } else { d.data.len() - d.pos };
    *buf = d.data.as_ptr().add(d.pos);
    d.pos += n;
    n as c_uint
}
unsafe extern "C" fn out_cb(d: *mut c_void, buf: *mut u8, len: c_uint) -> c_int {
    let v = &mut *(d as *mut Vec<u8>);
    v.extend_from_slice(core::slice::from_raw_parts(buf, len as usize));
    0
}

fn inflate_verdict(data: &[u8]) -> i32 {
    let mut out = vec![0u8; 1024];
    let mut s = MaybeUninit::<z_stream>::zeroed();
    unsafe {
        assert_eq!(inflateInit2_(s.as_mut_ptr(), -15, zlibVersion(), core::mem::size_of::<z_stream>() as i32), Z_OK);
        let s = s.assume_init_mut();
        s.next_in = data.as_ptr() as *mut u8; s.avail_in = data.len() as u32;
        s.next_out = out.as_mut_ptr(); s.avail_out = out.len() as u32;
        let rc = inflate(s, Z_FINISH);
        inflateEnd(s);
        rc
    }
}

fn back_verdict(data: &[u8], first: usize) -> i32 {
    let mut window = vec![0xEEu8; 32768];
    let mut s = MaybeUninit::<z_stream>::zeroed();
    unsafe {
        assert_eq!(inflateBackInit_(s.as_mut_ptr(), 15, window.as_mut_ptr(), zlibVersion(), core::mem::size_of::<z_stream>() as i32), Z_OK);
        let s = s.assume_init_mut();
        let mut ind = In { data: data.to_vec(), pos: 0, first };
        let mut outv: Vec<u8> = vec![];
        let rc = inflateBack(s, Some(in_cb), &mut ind as *mut _ as *mut c_void, Some(out_cb), &mut outv as *mut _ as *mut c_void);
        inflateBackEnd(s);
        rc
    }
}

#[test]
fn too_far_distance_is_rejected_whatever_the_slicing() {
    let data = stream();
    assert_eq!(inflate_verdict(&data), Z_DATA_ERROR, "inflate rejects the stream");
    for first in 1..=data.len() {
        assert_eq!(back_verdict(&data, first), Z_DATA_ERROR, "inflateBack with a first input slice of {first} bytes");
    }
}
