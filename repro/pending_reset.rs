// deflateReset with a partially drained pending buffer: the next stream must have the whole buffer again
// (aborted with "buf.len() must fit in remaining()" before /repo commit "fix: deflateReset rewinds the pending buffer's read cursor")
use core::mem::MaybeUninit;
use libz_rs_sys::*;

fn init(level: i32, wbits: i32, mem_level: i32) -> Box<z_stream> {
    let mut strm = Box::new(MaybeUninit::<z_stream>::zeroed());
    let err = unsafe {
        deflateInit2_(
            strm.as_mut_ptr(),
            level,
            Z_DEFLATED,
            wbits,
            mem_level,
            Z_DEFAULT_STRATEGY,
            zlibVersion(),
            core::mem::size_of::<z_stream>() as i32,
        )
    };
    assert_eq!(err, Z_OK);
    unsafe { Box::from_raw(Box::into_raw(strm) as *mut z_stream) }
}

#[test]
fn reset_with_partially_drained_pending() {
    let mut strm = init(0, -9, 1);
    let input: Vec<u8> = (0..507u32).map(|i| i as u8).collect();
    let mut out = vec![0u8; 4096];

    strm.next_in = input.as_ptr() as *mut u8;
    strm.avail_in = input.len() as _;
    strm.next_out = out.as_mut_ptr();
    strm.avail_out = 100;
    let err = unsafe { deflate(&mut *strm, Z_NO_FLUSH) };
    assert_eq!(err, Z_OK);
    let mut pend = 0;
    let mut bits = 0;
    unsafe { deflatePending(&mut *strm, &mut pend, &mut bits) };
    eprintln!("pending after first call: {pend} avail_in {}", strm.avail_in);

    let err = unsafe { deflateReset(&mut *strm) };
    assert_eq!(err, Z_OK);

    strm.next_in = input.as_ptr() as *mut u8;
    strm.avail_in = input.len() as _;
    strm.next_out = out.as_mut_ptr();
    strm.avail_out = 100;
    let err = unsafe { deflate(&mut *strm, Z_NO_FLUSH) };
    assert_eq!(err, Z_OK);
    unsafe { deflateEnd(&mut *strm) };
}

