//! Side observation (pre-existing, unrelated to the seed): the Rust-allocator fast path of
//! `Allocator::allocate_layout` narrows the requested size to `c_uint` with `as`.

use std::alloc::{GlobalAlloc, Layout, System};
use std::sync::atomic::{AtomicUsize, Ordering::SeqCst};

static LAST_REQUEST_64: AtomicUsize = AtomicUsize::new(0);
static DEALLOC_SIZE_MISMATCH: AtomicUsize = AtomicUsize::new(0);
static CANARY_SMASHED: AtomicUsize = AtomicUsize::new(0);

const PAD: usize = 64;

/// Wraps every 64-byte-aligned request (that is what the library asks for) in a header that
/// remembers the real size and a 64-byte canary behind the block.
struct Guard;

unsafe impl GlobalAlloc for Guard {
    unsafe fn alloc(&self, layout: Layout) -> *mut u8 {
        if layout.align() != 64 {
            return unsafe { System.alloc(layout) };
        }
        LAST_REQUEST_64.store(layout.size(), SeqCst);
        let Ok(real) = Layout::from_size_align(layout.size() + 2 * PAD, 64) else {
            return core::ptr::null_mut();
        };
        let base = unsafe { System.alloc(real) };
        if base.is_null() {
            return base;
        }
        unsafe {
            (base as *mut usize).write(layout.size());
            let user = base.add(PAD);
            user.add(layout.size()).write_bytes(0xCA, PAD);
            user
        }
    }

    unsafe fn dealloc(&self, ptr: *mut u8, layout: Layout) {
        if layout.align() != 64 {
            return unsafe { System.dealloc(ptr, layout) };
        }
        unsafe {
            let base = ptr.sub(PAD);
            let size = (base as *mut usize).read();
            if size != layout.size() {
                DEALLOC_SIZE_MISMATCH.fetch_add(1, SeqCst);
            }
            let canary = core::slice::from_raw_parts(ptr.add(size), PAD);
            if canary.iter().any(|&b| b != 0xCA) {
                CANARY_SMASHED.fetch_add(1, SeqCst);
            }
            System.dealloc(base, Layout::from_size_align(size + 2 * PAD, 64).unwrap());
        }
    }
}

#[global_allocator]
static GLOBAL: Guard = Guard;

#[test]
#[cfg(target_pointer_width = "64")]
fn side_observations() {
    // --- 1. directly on the allocator -------------------------------------------------------
    let len = (1usize << 32) + 64;
    let block = zlib_rs::allocate::RUST.allocate_slice_raw::<u8>(len);
    let requested = LAST_REQUEST_64.load(SeqCst);
    println!(
        "allocate_slice_raw::<u8>({len:#x}) -> {:?}, bytes really requested from the global allocator: {requested:#x}",
        block.map(|p| p.as_ptr())
    );
    if let Some(block) = block {
        unsafe { zlib_rs::allocate::RUST.deallocate(block.as_ptr(), len) };
    }
    println!(
        "dealloc calls whose size differs from the allocated size: {}",
        DEALLOC_SIZE_MISMATCH.load(SeqCst)
    );

    // --- 2. through the gz layer: gzbuffer(0x8000_0020), transparent write -------------------
    use libz_rs_sys::{gzbuffer, gzclose, gzopen, gzwrite};

    let dir = tempfile::tempdir().unwrap();
    let path = dir.path().join("out.bin");
    let cpath = std::ffi::CString::new(path.to_str().unwrap()).unwrap();

    let file = unsafe { gzopen(cpath.as_ptr(), c"wT".as_ptr()) };
    assert!(!file.is_null());
    assert_eq!(unsafe { gzbuffer(file, 0x8000_0020) }, 0);

    // 100 bytes; the canary behind the (really 64-byte) input buffer is 64 bytes long
    let data = [0x55u8; 100];
    let written = unsafe { gzwrite(file, data.as_ptr().cast(), data.len() as _) };
    println!(
        "gzwrite(100 bytes) -> {written}; input buffer really requested: {:#x} bytes",
        LAST_REQUEST_64.load(SeqCst)
    );
    let ret = unsafe { gzclose(file) };
    println!(
        "gzclose -> {ret}; canaries smashed: {}, dealloc size mismatches: {}",
        CANARY_SMASHED.load(SeqCst),
        DEALLOC_SIZE_MISMATCH.load(SeqCst)
    );

    assert_eq!(
        (CANARY_SMASHED.load(SeqCst), DEALLOC_SIZE_MISMATCH.load(SeqCst)),
        (0, 0),
        "heap write past the end of a block / dealloc with a size that was never allocated"
    );
}

/// `inflateCopy` of a freshly initialised stream (next_out still NULL): zlib / zlib-ng duplicate it,
/// zlib-rs answers Z_STREAM_ERROR.
#[test]
fn inflate_copy_with_null_next_out() {
    let ng = unsafe {
        use libz_sys::*;
        let mut strm = core::mem::MaybeUninit::<z_stream>::zeroed();
        let ret = inflateInit_(
            strm.as_mut_ptr(),
            zlibVersion(),
            core::mem::size_of::<z_stream>() as _,
        );
        assert_eq!(ret, Z_OK);
        let mut copy = core::mem::MaybeUninit::<z_stream>::zeroed();
        let ret = inflateCopy(copy.as_mut_ptr(), strm.as_mut_ptr());
        if ret == Z_OK {
            inflateEnd(copy.as_mut_ptr());
        }
        inflateEnd(strm.as_mut_ptr());
        ret
    };

    let rs = unsafe {
        use libz_rs_sys::*;
        let mut strm = core::mem::MaybeUninit::<z_stream>::zeroed();
        let ret = inflateInit_(
            strm.as_mut_ptr(),
            zlibVersion(),
            core::mem::size_of::<z_stream>() as _,
        );
        assert_eq!(ret, Z_OK);
        let mut copy = core::mem::MaybeUninit::<z_stream>::zeroed();
        let ret = inflateCopy(copy.as_mut_ptr(), strm.as_mut_ptr());
        if ret == Z_OK {
            inflateEnd(copy.as_mut_ptr());
        }
        inflateEnd(strm.as_mut_ptr());
        ret
    };

    println!("inflateCopy of a fresh stream: zlib-ng -> {ng}, zlib-rs -> {rs}");
    assert_eq!(ng, rs);
}
