// C04: the outcome of inflate must not depend on the flush mode. Z_TREES makes inflate return right after a stored block's
// LEN/NLEN header; the next call must copy the block's bytes, not parse another header.
use core::mem::MaybeUninit;
use libz_rs_sys::*;

fn run(flush: i32) -> (i32, Vec<u8>, u64) {
    // raw deflate: one final stored block with the 5 bytes "hello"
    let input = [0x01u8, 0x05, 0x00, 0xfa, 0xff, b'h', b'e', b'l', b'l', b'o'];
    let mut out = vec![0u8; 64];
    let mut s = MaybeUninit::<z_stream>::zeroed();
    unsafe {
        assert_eq!(inflateInit2_(s.as_mut_ptr(), -15, zlibVersion(), core::mem::size_of::<z_stream>() as i32), Z_OK);
        let s = s.assume_init_mut();
        s.next_in = input.as_ptr() as *mut u8;
        s.avail_in = input.len() as u32;
        s.next_out = out.as_mut_ptr();
        s.avail_out = out.len() as u32;
        let mut rc = Z_OK;
        for _ in 0..16 {
            rc = inflate(s, flush);
            if rc != Z_OK {
                break;
            }
        }
        let n = s.total_out as usize;
        let used = s.total_in as u64;
        inflateEnd(s);
        out.truncate(n);
        (rc, out, used)
    }
}

#[test]
fn stored_block_under_z_trees() {
    let reference = run(Z_NO_FLUSH);
    assert_eq!(reference, (Z_STREAM_END, b"hello".to_vec(), 10));
    assert_eq!(run(Z_BLOCK), reference, "Z_BLOCK");
    assert_eq!(run(Z_TREES), reference, "Z_TREES");
}
