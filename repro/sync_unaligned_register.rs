//! Side observation (pre-existing, unrelated to the seeded change): `inflateSync` starts its search in
//! the bit buffer.  zlib / zlib-ng discard the 1..7 bits below the byte boundary with
//! `hold >>= bits & 7`; zlib-rs `BitReader::start_sync_search` does `bit_buffer <<= bits_used & 7`
//! (zlib-rs/src/inflate/bitreader.rs:154), so the whole byte that is searched is not the byte of
//! the stream but the low bits of the bit buffer shifted up.

use core::ffi::c_int;
use core::mem::MaybeUninit;

macro_rules! run {
    ($lib:ident) => {{
        use $lib::*;

        let mut out = [0u8; 64];
        let mut strm = MaybeUninit::<z_stream>::zeroed();
        let ret = unsafe {
            inflateInit2_(
                strm.as_mut_ptr(),
                -15,
                zlibVersion(),
                core::mem::size_of::<z_stream>() as c_int,
            )
        };
        assert_eq!(ret, 0);
        let strm = unsafe { strm.assume_init_mut() };

        // 0x0c: BFINAL = 0, BTYPE = 2 (dynamic), then 5 bits of HLIT (value 1).
        // 0x00: the next 8 bits. Mode::Table wants 14 bits and has only 13: inflate returns with
        // 13 bits in the bit buffer (5 left over from the first byte + the whole second byte).
        let first = [0x0cu8, 0x00];
        strm.next_in = first.as_ptr() as *mut u8;
        strm.avail_in = 2;
        strm.next_out = out.as_mut_ptr();
        strm.avail_out = out.len() as _;
        let ret = unsafe { inflate(strm, 0) };
        assert_eq!(ret, 0);
        assert_eq!(strm.avail_in, 0);

        // The second byte (0x00) sits in the bit buffer and is the first byte of a
        // 00 00 ff ff marker that continues in the input.
        let rest = [0x00u8, 0xff, 0xff, 0x01, 0x00, 0x00, 0xff, 0xff];
        strm.next_in = rest.as_ptr() as *mut u8;
        strm.avail_in = rest.len() as _;
        let ret = unsafe { inflateSync(strm) };
        let left = strm.avail_in;
        unsafe { inflateEnd(strm) };
        (ret, left)
    }};
}

#[test]
fn sync_marker_that_starts_in_the_bit_buffer() {
    let ng = (0, 5); // what zlib and zlib-ng return (checked against libz-sys)
    let rs = run!(libz_rs_sys);
    assert_eq!(ng, (0, 5), "reference finds the marker after 3 input bytes");
    assert_eq!(rs, ng);
}
