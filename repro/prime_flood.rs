// deflatePrime repeated without deflate(): must end in Z_BUF_ERROR, not in an abort (run: cargo test --test prime_flood prime_flood)
//! Targeted probes (unchanged code): deflateTune combinations, deflatePrime flood, deflateCopy mid-stream.

use std::mem::MaybeUninit;
use std::panic::{catch_unwind, AssertUnwindSafe};

use zlib_rs::c_api::z_stream;
use zlib_rs::deflate::{self, DeflateConfig, DeflateStream, Method, Strategy};
use zlib_rs::inflate::{decompress_slice, InflateConfig};
use zlib_rs::{DeflateFlush, ReturnCode};

struct Rng(u64);
impl Rng {
    fn next(&mut self) -> u64 {
        let mut x = self.0;
        x ^= x << 13;
        x ^= x >> 7;
        x ^= x << 17;
        self.0 = x;
        x
    }
    fn below(&mut self, n: usize) -> usize {
        (self.next() % n as u64) as usize
    }
}

fn mixed_input(rng: &mut Rng, len: usize, wsize: usize) -> Vec<u8> {
    let mut v: Vec<u8> = Vec::new();
    while v.len() < len {
        match rng.below(5) {
            0 => {
                for _ in 0..1 + rng.below(200) {
                    v.push(rng.next() as u8);
                }
            }
            1 => {
                let b = rng.next() as u8;
                for _ in 0..1 + rng.below(600) {
                    v.push(b);
                }
            }
            2 => {
                for _ in 0..1 + rng.below(400) {
                    v.push(b'a' + rng.below(3) as u8);
                }
            }
            _ => {
                if v.is_empty() {
                    v.push(1);
                }
                let dist = (1 + rng.below(wsize)).min(v.len());
                for _ in 0..3 + rng.below(300) {
                    let b = v[v.len() - dist];
                    v.push(b);
                }
            }
        }
    }
    v
}

fn finish_all(strm: &mut z_stream, input: &[u8], out: &mut Vec<u8>, flush_every: usize) {
    let mut scratch = vec![0u8; 4096];
    let mut pos = 0;
    loop {
        let chunk = flush_every.min(input.len() - pos);
        let last = pos + chunk == input.len();
        strm.next_in = input[pos..].as_ptr() as *mut u8;
        strm.avail_in = chunk as _;
        let flush = if last { DeflateFlush::Finish } else { DeflateFlush::NoFlush };
        loop {
            strm.next_out = scratch.as_mut_ptr();
            strm.avail_out = scratch.len() as _;
            let s = unsafe { DeflateStream::from_stream_mut(strm) }.unwrap();
            let rc = deflate::deflate(s, flush);
            out.extend_from_slice(&scratch[..scratch.len() - strm.avail_out as usize]);
            match rc {
                ReturnCode::StreamEnd => return,
                ReturnCode::Ok => {}
                ReturnCode::BufError if strm.avail_in == 0 => {}
                other => panic!("deflate returned {other:?}"),
            }
            if !last && strm.avail_in == 0 {
                break;
            }
        }
        pos += chunk;
    }
}

fn check(input: &[u8], out: &[u8], window_bits: i32, what: &str) -> bool {
    let mut result = vec![0u8; input.len() + 16];
    let (result, rc) = decompress_slice(&mut result, out, InflateConfig { window_bits });
    if rc != ReturnCode::Ok || result != input {
        eprintln!("FAIL {what}: rc {rc:?} len {} want {}", result.len(), input.len());
        return false;
    }
    true
}

#[test]
fn tune_combinations() {
    let mut rng = Rng(0x1234_5678_9abc_def1);
    let mut bad = 0;
    for case in 0..3000 {
        let bits = 9 + rng.below(7) as i32;
        let level = [2, 3, 4, 5, 6, 7, 8, 9][rng.below(8)];
        let strategy = [Strategy::Default, Strategy::Filtered, Strategy::Fixed][rng.below(3)];
        let config = DeflateConfig {
            level,
            method: Method::Deflated,
            window_bits: bits,
            mem_level: 1 + rng.below(9) as i32,
            strategy,
        };
        let pick = |rng: &mut Rng| [0usize, 1, 2, 3, 4, 5, 8, 32, 257, 258, 259, 1024, 1025, 4096, 65535, 65536][rng.below(16)];
        let (g, l, n, c) = (pick(&mut rng), pick(&mut rng), pick(&mut rng), pick(&mut rng));
        let len = 1 + rng.below(3 << bits);
        let input = mixed_input(&mut rng, len, 1 << bits);
        let what = format!("case {case} level {level} bits {bits} {strategy:?} tune({g},{l},{n},{c}) len {}", input.len());
        let r = catch_unwind(AssertUnwindSafe(|| {
            let mut strm = z_stream::default();
            assert_eq!(deflate::init(&mut strm, config), ReturnCode::Ok);
            let mut out = Vec::new();
            let tune_at = rng.below(3);
            if tune_at == 0 {
                let s = unsafe { DeflateStream::from_stream_mut(&mut strm) }.unwrap();
                deflate::tune(s, g, l, n, c);
                finish_all(&mut strm, &input, &mut out, 1 + rng.below(5000));
            } else {
                // tune in the middle of the stream (no flush needed for deflateTune)
                let cut = rng.below(input.len());
                let mut scratch = vec![0u8; 2 * input.len() + 1000];
                strm.next_in = input.as_ptr() as *mut u8;
                strm.avail_in = cut as _;
                strm.next_out = scratch.as_mut_ptr();
                strm.avail_out = scratch.len() as _;
                let s = unsafe { DeflateStream::from_stream_mut(&mut strm) }.unwrap();
                let rc = deflate::deflate(s, DeflateFlush::NoFlush);
                assert!(matches!(rc, ReturnCode::Ok | ReturnCode::BufError));
                out.extend_from_slice(&scratch[..scratch.len() - strm.avail_out as usize]);
                let s = unsafe { DeflateStream::from_stream_mut(&mut strm) }.unwrap();
                deflate::tune(s, g, l, n, c);
                finish_all(&mut strm, &input[cut..], &mut out, 1 + rng.below(5000));
            }
            let s = unsafe { DeflateStream::from_stream_mut(&mut strm) }.unwrap();
            let _ = deflate::end(s);
            check(&input, &out, bits, &what)
        }));
        match r {
            Ok(true) => {}
            Ok(false) => bad += 1,
            Err(p) => {
                bad += 1;
                eprintln!(
                    "PANIC {what}: {}",
                    p.downcast_ref::<String>().cloned().or_else(|| p.downcast_ref::<&str>().map(|s| s.to_string())).unwrap_or_default()
                );
            }
        }
    }
    assert_eq!(bad, 0);
}

#[test]
fn prime_flood() {
    // zlib answers Z_BUF_ERROR once the pending buffer cannot take more primed bits
    let config = DeflateConfig { level: 6, method: Method::Deflated, window_bits: -9, mem_level: 1, strategy: Strategy::Default };
    let r = catch_unwind(|| {
        let mut strm = z_stream::default();
        assert_eq!(deflate::init(&mut strm, config), ReturnCode::Ok);
        let mut codes = Vec::new();
        for i in 0..400 {
            let s = unsafe { DeflateStream::from_stream_mut(&mut strm) }.unwrap();
            let rc = deflate::prime(s, 16, 0x5555);
            if rc != ReturnCode::Ok {
                codes.push((i, rc));
                break;
            }
        }
        codes
    });
    match r {
        Ok(codes) => eprintln!("prime flood: no panic, non-Ok codes: {codes:?}"),
        Err(p) => panic!(
            "prime flood panicked: {}",
            p.downcast_ref::<String>().cloned().or_else(|| p.downcast_ref::<&str>().map(|s| s.to_string())).unwrap_or_default()
        ),
    }
}

#[test]
fn copy_mid_stream() {
    let mut rng = Rng(0xfeed_beef_1234_5671);
    let mut bad = 0;
    for case in 0..1500 {
        let bits = 9 + rng.below(7) as i32;
        let level = rng.below(10) as i32;
        let strategy = [Strategy::Default, Strategy::Default, Strategy::Rle, Strategy::HuffmanOnly, Strategy::Fixed][rng.below(5)];
        let config = DeflateConfig { level, method: Method::Deflated, window_bits: bits, mem_level: 1 + rng.below(9) as i32, strategy };
        let len = 2 + rng.below(3 << bits);
        let input = mixed_input(&mut rng, len, 1 << bits);
        let cut = 1 + rng.below(input.len() - 1);
        let what = format!("copy case {case} level {level} bits {bits} {strategy:?} len {} cut {cut}", input.len());
        let small_out = rng.below(2) == 0;
        let r = catch_unwind(AssertUnwindSafe(|| {
            let mut strm = z_stream::default();
            assert_eq!(deflate::init(&mut strm, config), ReturnCode::Ok);
            let mut out = Vec::new();
            let mut scratch = vec![0u8; 2 * input.len() + 1000];
            strm.next_in = input.as_ptr() as *mut u8;
            strm.avail_in = cut as _;
            strm.next_out = scratch.as_mut_ptr();
            // leave output pending in the source stream now and then
            let cap = if small_out { 1 + rng.below(40) } else { scratch.len() };
            strm.avail_out = cap as _;
            let s = unsafe { DeflateStream::from_stream_mut(&mut strm) }.unwrap();
            let rc = deflate::deflate(s, [DeflateFlush::NoFlush, DeflateFlush::SyncFlush, DeflateFlush::Block][rng.below(3)]);
            assert!(matches!(rc, ReturnCode::Ok | ReturnCode::BufError));
            out.extend_from_slice(&scratch[..cap - strm.avail_out as usize]);
            let consumed = cut - strm.avail_in as usize;

            let mut copy = MaybeUninit::<DeflateStream>::uninit();
            let s = unsafe { DeflateStream::from_stream_mut(&mut strm) }.unwrap();
            assert_eq!(deflate::copy(&mut copy, s), ReturnCode::Ok);
            let copy = unsafe { copy.assume_init_mut() };
            let s = unsafe { DeflateStream::from_stream_mut(&mut strm) }.unwrap();
            let _ = deflate::end(s);

            let cstrm: &mut z_stream = unsafe { &mut *(copy as *mut DeflateStream as *mut z_stream) };
            finish_all(cstrm, &input[consumed..], &mut out, 1 + rng.below(5000));
            let s = unsafe { DeflateStream::from_stream_mut(cstrm) }.unwrap();
            let _ = deflate::end(s);
            check(&input, &out, bits, &what)
        }));
        match r {
            Ok(true) => {}
            Ok(false) => bad += 1,
            Err(p) => {
                bad += 1;
                eprintln!(
                    "PANIC {what}: {}",
                    p.downcast_ref::<String>().cloned().or_else(|| p.downcast_ref::<&str>().map(|s| s.to_string())).unwrap_or_default()
                );
            }
        }
    }
    assert_eq!(bad, 0);
}

#[test]
fn dictionary_lengths() {
    use zlib_rs::inflate::{self, InflateStream};
    use zlib_rs::InflateFlush;

    let mut rng = Rng(0x0dd1_c710_4a2b_3c4d);
    let mut bad = 0;
    for case in 0..1500 {
        let bits = 9 + rng.below(7) as i32;
        let wsize = 1usize << bits;
        let raw = rng.below(2) == 0;
        let level = rng.below(10) as i32;
        let config = DeflateConfig {
            level,
            method: Method::Deflated,
            window_bits: if raw { -bits } else { bits },
            mem_level: 1 + rng.below(9) as i32,
            strategy: Strategy::Default,
        };
        let dlen = match rng.below(8) {
            0 => rng.below(10),
            1 => wsize - 264 + rng.below(8),
            2 => wsize - 4 + rng.below(8),
            3 => 2 * wsize - 266 + rng.below(10),
            4 => 2 * wsize - 5 + rng.below(10),
            5 => 2 * wsize + rng.below(3000),
            _ => rng.below(2 * wsize + 100),
        };
        let dict = mixed_input(&mut rng, dlen.max(1), wsize);
        let dict = &dict[..dlen.min(dict.len())];
        // the data re-uses pieces of the dictionary
        let mut input = Vec::new();
        let pieces = 1 + rng.below(6);
        for _ in 0..pieces {
            if !dict.is_empty() && rng.below(3) != 0 {
                let a = rng.below(dict.len());
                let b = (a + 3 + rng.below(400)).min(dict.len());
                input.extend_from_slice(&dict[a..b]);
            } else {
                let n = 1 + rng.below(300);
                let extra = mixed_input(&mut rng, n, wsize);
                input.extend_from_slice(&extra);
            }
        }
        // the tail of the dictionary right at the start: distances close to the limit
        if dict.len() > 20 && rng.below(2) == 0 {
            let mut v = dict[dict.len() - 20..].to_vec();
            v.extend_from_slice(&input);
            input = v;
        }
        let what = format!("dict case {case} level {level} bits {bits} raw {raw} dict {} len {}", dict.len(), input.len());
        let r = catch_unwind(AssertUnwindSafe(|| {
            let mut strm = z_stream::default();
            assert_eq!(deflate::init(&mut strm, config), ReturnCode::Ok);
            let s = unsafe { DeflateStream::from_stream_mut(&mut strm) }.unwrap();
            assert_eq!(deflate::set_dictionary(s, dict), ReturnCode::Ok);
            let mut out = Vec::new();
            finish_all(&mut strm, &input, &mut out, 1 + rng.below(5000));
            let s = unsafe { DeflateStream::from_stream_mut(&mut strm) }.unwrap();
            let _ = deflate::end(s);

            let mut istrm = z_stream::default();
            assert_eq!(inflate::init(&mut istrm, InflateConfig { window_bits: config.window_bits }), ReturnCode::Ok);
            let mut result = vec![0u8; input.len() + 16];
            if raw {
                let s = unsafe { InflateStream::from_stream_mut(&mut istrm) }.unwrap();
                assert_eq!(inflate::set_dictionary(s, dict), ReturnCode::Ok);
            }
            istrm.next_in = out.as_ptr() as *mut u8;
            istrm.avail_in = out.len() as _;
            istrm.next_out = result.as_mut_ptr();
            istrm.avail_out = result.len() as _;
            let s = unsafe { InflateStream::from_stream_mut(&mut istrm) }.unwrap();
            let mut rc = unsafe { inflate::inflate(s, InflateFlush::NoFlush) };
            if rc == ReturnCode::NeedDict {
                let s = unsafe { InflateStream::from_stream_mut(&mut istrm) }.unwrap();
                let rc2 = inflate::set_dictionary(s, dict);
                if rc2 != ReturnCode::Ok {
                    eprintln!("FAIL {what}: inflate set_dictionary {rc2:?}");
                    return false;
                }
                let s = unsafe { InflateStream::from_stream_mut(&mut istrm) }.unwrap();
                rc = unsafe { inflate::inflate(s, InflateFlush::NoFlush) };
            }
            let produced = result.len() - istrm.avail_out as usize;
            let s = unsafe { InflateStream::from_stream_mut(&mut istrm) }.unwrap();
            let _ = inflate::end(s);
            if rc != ReturnCode::StreamEnd || result[..produced] != input[..] {
                eprintln!("FAIL {what}: rc {rc:?} produced {produced}");
                return false;
            }
            true
        }));
        match r {
            Ok(true) => {}
            Ok(false) => bad += 1,
            Err(p) => {
                bad += 1;
                eprintln!(
                    "PANIC {what}: {}",
                    p.downcast_ref::<String>().cloned().or_else(|| p.downcast_ref::<&str>().map(|s| s.to_string())).unwrap_or_default()
                );
            }
        }
    }
    assert_eq!(bad, 0);
}
