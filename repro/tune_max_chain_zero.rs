// deflateTune(max_chain = 0): longest_match decrements the chain counter below zero (panic with overflow checks)
use core::mem::MaybeUninit;
use libz_rs_sys::*;

fn init(level: i32, wbits: i32, mem_level: i32) -> Box<z_stream> {
    let mut strm = Box::new(MaybeUninit::<z_stream>::zeroed());
    let err = unsafe {
        deflateInit2_(
            strm.as_mut_ptr(),
            level,
            Z_DEFLATED,
            wbits,
            mem_level,
            Z_DEFAULT_STRATEGY,
            zlibVersion(),
            core::mem::size_of::<z_stream>() as i32,
        )
    };
    assert_eq!(err, Z_OK);
    unsafe { Box::from_raw(Box::into_raw(strm) as *mut z_stream) }
}

#[test]
fn tune_max_chain_zero() {
    let mut strm = init(6, 15, 8);
    let err = unsafe { deflateTune(&mut *strm, 4, 4, 16, 0) };
    assert_eq!(err, Z_OK);
    let input: Vec<u8> = b"abcdefgh-abcdefgh-abcdefgh-abcdefgh-xyz".repeat(20);
    let mut out = vec![0u8; 4096];
    strm.next_in = input.as_ptr() as *mut u8;
    strm.avail_in = input.len() as _;
    strm.next_out = out.as_mut_ptr();
    strm.avail_out = out.len() as _;
    let err = unsafe { deflate(&mut *strm, Z_FINISH) };
    assert_eq!(err, Z_STREAM_END);
    unsafe { deflateEnd(&mut *strm) };
}
