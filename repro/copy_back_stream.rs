// inflateCopy on a stream set up by inflateBackInit: the stream borrows the caller's (here 512-byte) window; duplicating it
// must be refused with Z_STREAM_ERROR (as zlib does), not read 32 KiB + 64 bytes from that window.
use core::mem::MaybeUninit;
use libz_rs_sys::*;

#[test]
fn inflate_copy_refuses_an_inflate_back_stream() {
    let mut window = vec![0u8; 512];
    let mut s = MaybeUninit::<z_stream>::zeroed();
    let mut d = MaybeUninit::<z_stream>::zeroed();
    unsafe {
        assert_eq!(inflateBackInit_(s.as_mut_ptr(), 9, window.as_mut_ptr(), zlibVersion(), core::mem::size_of::<z_stream>() as i32), Z_OK);
        let s = s.assume_init_mut();
        let mut out = [0u8; 8];
        let input = [0u8; 8];
        s.next_out = out.as_mut_ptr(); s.avail_out = 8;
        s.next_in = input.as_ptr() as *mut u8; s.avail_in = 8;
        assert_eq!(inflateCopy(d.as_mut_ptr(), s), Z_STREAM_ERROR);
        assert_eq!(inflateBackEnd(s), Z_OK);
    }
}
