use core::ffi::{c_int, c_uint};
use core::mem::MaybeUninit;

macro_rules! run_both {
    ($tt:tt) => {{
        #[allow(unused_unsafe, unused_braces)]
        let ng = unsafe {
            use libz_sys::*;
            extern "C" {
                #[allow(unused)]
                fn deflateGetDictionary(
                    strm: *const z_stream,
                    dictionary: *mut core::ffi::c_uchar,
                    dictLength: *mut core::ffi::c_uint,
                ) -> core::ffi::c_int;
            }
            $tt
        };
        #[allow(unused_unsafe, unused_braces)]
        let rs = unsafe {
            use libz_rs_sys::*;
            $tt
        };
        (rs, ng)
    }};
}

fn data(n: usize, seed: u32) -> Vec<u8> {
    // text-like data with many repeats at varying distances
    let words: [&[u8]; 8] = [b"alpha ", b"beta ", b"gamma ", b"delta ", b"epsilon ", b"zeta ", b"eta ", b"theta "];
    let mut x = seed;
    let mut v = Vec::new();
    while v.len() < n {
        x = x.wrapping_mul(1664525).wrapping_add(1013904223);
        v.extend_from_slice(words[(x >> 24) as usize % 8]);
        if (x >> 8) % 5 == 0 {
            v.push((x >> 16) as u8);
        }
    }
    v.truncate(n);
    v
}

fn tune(level: c_int, good: c_int, lazy: c_int, nice: c_int, chain: c_int) -> ((Vec<c_int>, Vec<u8>), (Vec<c_int>, Vec<u8>)) {
    let input = data(60000, 7);
    run_both!({
        let mut codes = Vec::new();
        let mut out = vec![0u8; 200000];
        let mut strm = MaybeUninit::<z_stream>::zeroed();
        codes.push(deflateInit2_(strm.as_mut_ptr(), level, 8, 15, 8, 0, zlibVersion(), core::mem::size_of::<z_stream>() as c_int));
        let strm = strm.assume_init_mut();
        codes.push(deflateTune(strm, good, lazy, nice, chain));
        let mut inp = input.clone();
        strm.next_in = inp.as_mut_ptr();
        strm.avail_in = inp.len() as _;
        strm.next_out = out.as_mut_ptr();
        strm.avail_out = out.len() as _;
        codes.push(deflate(strm, 4));
        out.truncate(strm.total_out as usize);
        codes.push(deflateEnd(strm));
        (codes, out)
    })
}

#[test]
fn tune_big_values() {
    for (level, g, l, n, c) in [
        (9, 32, 258, 258, 65536 + 8),
        (6, 8, 65536, 128, 128),
        (6, 8, 16, 65536 + 3, 128),
        (6, 65536 + 4, 16, 128, 128),
        (6, 8, 16, 128, 65536),
        (6, -1, -1, -1, -1),
        (6, 0, 0, 0, 0),
    ] {
        let (rs, ng) = tune(level, g, l, n, c);
        println!("tune level {level} ({g},{l},{n},{c}): codes rs {:?} ng {:?}; out len rs {} ng {}; equal {}", rs.0, ng.0, rs.1.len(), ng.1.len(), rs == ng);
    }
}

fn setdict(window_bits: c_int, dict_len: usize, prior: usize) -> ((Vec<c_int>, c_uint, Vec<u8>, Vec<u8>), (Vec<c_int>, c_uint, Vec<u8>, Vec<u8>)) {
    let dict = data(dict_len, 3);
    let first = data(prior, 11);
    let input = data(3000, 5);
    run_both!({
        let mut codes = Vec::new();
        let mut out = vec![0u8; 200000];
        let mut strm = MaybeUninit::<z_stream>::zeroed();
        codes.push(deflateInit2_(strm.as_mut_ptr(), 6, 8, window_bits, 8, 0, zlibVersion(), core::mem::size_of::<z_stream>() as c_int));
        let strm = strm.assume_init_mut();
        strm.next_out = out.as_mut_ptr();
        strm.avail_out = out.len() as _;
        if prior > 0 {
            let mut f = first.clone();
            strm.next_in = f.as_mut_ptr();
            strm.avail_in = f.len() as _;
            codes.push(deflate(strm, 3));
        }
        codes.push(deflateSetDictionary(strm, dict.as_ptr(), dict.len() as _));
        let mut d = vec![0u8; 65536];
        let mut dl: c_uint = 0;
        codes.push(deflateGetDictionary(strm, d.as_mut_ptr(), &mut dl));
        d.truncate(dl as usize);
        let mut inp = input.clone();
        strm.next_in = inp.as_mut_ptr();
        strm.avail_in = inp.len() as _;
        codes.push(deflate(strm, 4));
        out.truncate(strm.total_out as usize);
        codes.push(deflateEnd(strm));
        (codes, dl, d, out)
    })
}

#[test]
fn set_dictionary_between_one_and_two_windows() {
    for wb in [-9i32, 9, -10, -15] {
        let w = 1usize << (wb.abs());
        for dl in [w - 1, w, w + 1, w + 200, 2 * w - 1, 2 * w, 2 * w + 1] {
            for prior in [0usize, 100, w + 300] {
                if wb > 0 && prior > 0 { continue; }
                let (rs, ng) = setdict(wb, dl, prior);
                println!("setdict wb {wb} dict {dl} prior {prior}: codes rs {:?} ng {:?}; dictlen rs {} ng {}; dict eq {}; out len rs {} ng {}; out eq {}", rs.0, ng.0, rs.1, ng.1, rs.2 == ng.2, rs.3.len(), ng.3.len(), rs.3 == ng.3);
            }
        }
    }
}
