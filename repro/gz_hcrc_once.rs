// Pre-existing (unchanged HEAD) behaviour, NOT the seed: see notes.md "Side observations".
// Copy to test-libz-rs-sys/tests/ and run: cargo test --offline -p test-libz-rs-sys --test side_observation_repro -- --nocapture
use core::mem::MaybeUninit;
use libz_rs_sys::*;

fn gz_with_header(name_len: usize, mem_level: i32, chunk: usize) -> Vec<u8> {
    let mut name: Vec<u8> = (0..name_len).map(|i| b'a' + (i % 26) as u8).collect();
    name.push(0);

    let mut stream = MaybeUninit::<z_stream>::zeroed();
    let err = unsafe {
        deflateInit2_(
            stream.as_mut_ptr(),
            6,
            Z_DEFLATED,
            31,
            mem_level,
            Z_DEFAULT_STRATEGY,
            zlibVersion(),
            core::mem::size_of::<z_stream>() as _,
        )
    };
    assert_eq!(err, Z_OK);
    let stream = unsafe { stream.assume_init_mut() };

    let mut header = gz_header {
        text: 1,
        time: 0x01020304,
        xflags: 0,
        os: 7,
        extra: core::ptr::null_mut(),
        extra_len: 0,
        extra_max: 0,
        name: name.as_mut_ptr(),
        name_max: 0,
        comment: core::ptr::null_mut(),
        comm_max: 0,
        hcrc: 1,
        done: 0,
    };
    assert_eq!(unsafe { deflateSetHeader(stream, &mut header) }, Z_OK);

    let input = b"hello hello hello";
    stream.next_in = input.as_ptr() as *mut _;
    stream.avail_in = input.len() as _;

    let mut out = vec![0u8; 1 << 16];
    let mut pos = 0;
    loop {
        stream.next_out = out[pos..].as_mut_ptr();
        stream.avail_out = chunk as _;
        let err = unsafe { deflate(stream, Z_FINISH) };
        pos += chunk - stream.avail_out as usize;
        if err == Z_STREAM_END {
            break;
        }
        assert!(err == Z_OK || err == Z_BUF_ERROR, "err {err}");
    }
    unsafe { deflateEnd(stream) };
    out.truncate(pos);
    out
}

#[test]
fn explore_hcrc_split() {
    let mut bad = 0;
    for name_len in 480..=520 {
        let whole = gz_with_header(name_len, 1, 1 << 15);
        for chunk in [1usize, 2, 3, 7, 100] {
            let chunked = gz_with_header(name_len, 1, chunk);
            if whole != chunked {
                let d = whole.iter().zip(&chunked).position(|(a, b)| a != b).unwrap();
                println!(
                    "MISMATCH name_len={name_len} chunk={chunk} whole.len={} chunked.len={} first diff at {d}: whole {:02x?} chunked {:02x?}",
                    whole.len(),
                    chunked.len(),
                    &whole[d.saturating_sub(2)..d + 4],
                    &chunked[d.saturating_sub(2)..d + 5],
                );
                bad += 1;
            }
        }
    }
    assert_eq!(bad, 0, "output depends on the output chunking");
}
