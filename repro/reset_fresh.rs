// triage: does a reset stream (window holding stale bytes) compress exactly like a fresh one, for every chunking?
use core::mem::MaybeUninit;
use libz_rs_sys::*;

struct Rng(u64);
impl Rng {
    fn next(&mut self) -> u64 {
        self.0 ^= self.0 << 13;
        self.0 ^= self.0 >> 7;
        self.0 ^= self.0 << 17;
        self.0
    }
}

unsafe fn feed(s: &mut z_stream, chunks: &[&[u8]], mid: i32, out: &mut Vec<u8>) {
    let mut buf = vec![0u8; 1 << 16];
    for (i, c) in chunks.iter().enumerate() {
        s.next_in = c.as_ptr() as *mut u8;
        s.avail_in = c.len() as u32;
        let flush = if i + 1 == chunks.len() { Z_FINISH } else { mid };
        loop {
            s.next_out = buf.as_mut_ptr();
            s.avail_out = buf.len() as u32;
            let rc = deflate(s, flush);
            let n = buf.len() - s.avail_out as usize;
            out.extend_from_slice(&buf[..n]);
            if rc == Z_STREAM_END || (flush != Z_FINISH && s.avail_in == 0 && s.avail_out != 0) {
                break;
            }
            assert!(rc == Z_OK || rc == Z_BUF_ERROR, "rc {rc}");
        }
    }
}

#[test]
fn reset_equals_fresh_under_chunking() {
    let mut rng = Rng(0x9e3779b97f4a7c15);
    let mut found = 0;
    let mut by = std::collections::BTreeMap::<(i32,i32),u32>::new();
    for iter in 0..200000 {
        let level = 1 + (rng.next() % 9) as i32;
        let n = 8 + (rng.next() % 40) as usize;
        let alpha = 2 + (rng.next() % 3) as u8;
        let data: Vec<u8> = (0..n).map(|_| b'a' + (rng.next() % alpha as u64) as u8).collect();
        // split into 2..4 chunks
        let mut cuts = vec![0usize, n];
        for _ in 0..(1 + rng.next() % 3) {
            cuts.push((rng.next() % (n as u64 + 1)) as usize);
        }
        cuts.sort();
        let chunks: Vec<&[u8]> = cuts.windows(2).map(|w| &data[w[0]..w[1]]).collect();
        let dirty: Vec<u8> = data.clone();
        unsafe {
            let mut a = MaybeUninit::<z_stream>::zeroed();
            assert_eq!(deflateInit2_(a.as_mut_ptr(), level, Z_DEFLATED, -9, 1, Z_DEFAULT_STRATEGY, zlibVersion(), core::mem::size_of::<z_stream>() as i32), Z_OK);
            let a = a.assume_init_mut();
            let mut out_fresh = Vec::new();
            let mid = [Z_SYNC_FLUSH, Z_PARTIAL_FLUSH, Z_BLOCK, Z_NO_FLUSH][(rng.next() % 4) as usize];
            feed(a, &chunks, mid, &mut out_fresh);
            deflateEnd(a);

            let mut b = MaybeUninit::<z_stream>::zeroed();
            assert_eq!(deflateInit2_(b.as_mut_ptr(), level, Z_DEFLATED, -9, 1, Z_DEFAULT_STRATEGY, zlibVersion(), core::mem::size_of::<z_stream>() as i32), Z_OK);
            let b = b.assume_init_mut();
            let mut junk = Vec::new();
            feed(b, &[&dirty[..]], Z_NO_FLUSH, &mut junk);
            assert_eq!(deflateReset(b), Z_OK);
            let mut out_reset = Vec::new();
            feed(b, &chunks, mid, &mut out_reset);
            deflateEnd(b);
            if out_fresh != out_reset {
                found += 1;
                *by.entry((level, mid)).or_default() += 1;
                if found <= 3 {
                    eprintln!("DIFF iter {iter} level {level} mid {mid} data {:?} cuts {:?}\n fresh {:02x?}\n reset {:02x?}", String::from_utf8_lossy(&data), cuts, out_fresh, out_reset);
                }
            }
        }
    }
    eprintln!("BY (level, flush): {by:?}");
    assert_eq!(found, 0, "{found} inputs compress differently on a reset stream");
}
