// deflatePrime on a finished raw stream leaves a few bits in the bit buffer; the next deflate(Z_FINISH) must still report
// Z_STREAM_END (zlib-ng does) instead of running into `assert_eq!(bits_valid, 0, "bi_buf not flushed")` and aborting.
use core::mem::MaybeUninit;
use libz_rs_sys::*;

#[test]
fn finish_after_prime_on_a_finished_stream() {
    for window_bits in [-15, 15, 31] {
        let mut s = MaybeUninit::<z_stream>::zeroed();
        unsafe {
            assert_eq!(
                deflateInit2_(s.as_mut_ptr(), 6, Z_DEFLATED, window_bits, 8, Z_DEFAULT_STRATEGY, zlibVersion(), core::mem::size_of::<z_stream>() as i32),
                Z_OK
            );
            let s = s.assume_init_mut();
            let input = *b"hello";
            let mut out = [0u8; 64];
            s.next_in = input.as_ptr() as *mut u8;
            s.avail_in = 5;
            s.next_out = out.as_mut_ptr();
            s.avail_out = 64;
            assert_eq!(deflate(s, Z_FINISH), Z_STREAM_END);
            assert_eq!(deflatePrime(s, 3, 5), Z_OK);
            assert_eq!(deflate(s, Z_FINISH), Z_STREAM_END);
            deflateEnd(s);
        }
    }
}
