#!/bin/bash
# Offline set-up: nothing to build ahead of time -- every check rebuilds its harness crate from /repo's working tree.
# We only verify that the tools the checks need are present.
set -e
cd "$(dirname "$(readlink -f "$0")")"
export CARGO_NET_OFFLINE=true
for t in cargo rsync python3 cbmc goto-instrument z3 cvc5; do command -v $t >/dev/null || { echo "missing tool: $t"; exit 1; }; done
cargo kani --version
true
echo "setup ok"
