use libz_rs_sys::*;
use std::ffi::c_void;

struct In { data: Vec<u8>, done: bool }
unsafe extern "C" fn in_f(desc: *mut c_void, buf: *mut *const u8) -> u32 {
    let d = &mut *(desc as *mut In);
    if d.done { return 0; }
    d.done = true;
    *buf = d.data.as_ptr();
    d.data.len() as u32
}
unsafe extern "C" fn out_f(_desc: *mut c_void, _buf: *mut u8, len: u32) -> i32 {
    println!("out {len}");
    0
}

fn bits_to_bytes(bits: &[(u32, u32)]) -> Vec<u8> {
    // (value, nbits) LSB-first
    let mut out = vec![]; let mut acc: u64 = 0; let mut n = 0;
    for &(v, k) in bits { acc |= (v as u64) << n; n += k; while n >= 8 { out.push(acc as u8); acc >>= 8; n -= 8; } }
    if n > 0 { out.push(acc as u8); }
    out
}
fn rev(v: u32, n: u32) -> u32 { let mut r = 0; for i in 0..n { if v & (1<<i) != 0 { r |= 1 << (n-1-i); } } r }

fn main() {
    let which = std::env::args().nth(1).unwrap_or_default();
    unsafe {
        if which == "infback" {
            // fixed block: literal 'a' (0x61 -> code 0x30+0x61=0x91, 8 bits, msb-first), length 3 (sym 257: 7-bit 0000001), dist code 29 (5 bits) + 13 extra bits all ones => dist 32768
            let mut bits = vec![(1,1),(1,2)];
            bits.push((rev(0x30+0x61,8),8));
            bits.push((rev(1,7),7));
            bits.push((rev(29,5),5));
            bits.push((0x1fff,13));
            bits.push((0,7)); // eob
            let data = bits_to_bytes(&bits);
            println!("{data:02x?}");
            let mut window = vec![0u8; 256];
            let mut strm: z_stream = std::mem::zeroed();
            let rc = inflateBackInit_(&mut strm, 8, window.as_mut_ptr(), zlibVersion(), std::mem::size_of::<z_stream>() as i32);
            println!("init {rc}");
            let mut inp = In { data, done: false };
            let rc = inflateBack(&mut strm, Some(in_f), &mut inp as *mut _ as *mut c_void, Some(out_f), std::ptr::null_mut());
            println!("inflateBack rc {rc}");
            inflateBackEnd(&mut strm);
        } else if which == "prime" {
            let mut strm: z_stream = std::mem::zeroed();
            let rc = deflateInit_(&mut strm, 6, zlibVersion(), std::mem::size_of::<z_stream>() as i32);
            println!("init {rc}");
            let rc = deflatePrime(&mut strm, 20, 5);
            println!("prime rc {rc}");
            deflateEnd(&mut strm);
        } else if which == "reset" {
            let data: Vec<u8> = (0..2000u32).map(|i| (i * 7 % 251) as u8).collect();
            let mut out = vec![0u8; 8192];
            // fresh
            let mut f = zlib_rs::Deflate::new(1, true, 15);
            let r = f.compress(b"hello world", &mut out, zlib_rs::DeflateFlush::Finish);
            let fresh = out[..f.total_out() as usize].to_vec();
            println!("fresh {r:?} {fresh:02x?}");
            // used then reset
            let mut d = zlib_rs::Deflate::new(1, true, 15);
            let r = d.compress(&data, &mut out, zlib_rs::DeflateFlush::NoFlush);
            println!("first {r:?} in {} out {}", d.total_in(), d.total_out());
            d.reset();
            let r = d.compress(b"hello world", &mut out, zlib_rs::DeflateFlush::Finish);
            let after = out[..d.total_out() as usize].to_vec();
            println!("after-reset {r:?} {after:02x?}");
            println!("EQUAL={}", fresh == after);
            let mut back = [0u8; 64];
            let (o, rc) = zlib_rs::decompress_slice(&mut back, &after, zlib_rs::InflateConfig::default());
            println!("decode rc {rc:?} {:?}", std::str::from_utf8(o));
        } else if which == "copyfail" {
            static mut FAIL: bool = false;
            static mut FREES: u32 = 0;
            unsafe extern "C" fn za(_o: *mut c_void, n: u32, sz: u32) -> *mut c_void {
                if FAIL { return std::ptr::null_mut(); }
                libc_malloc((n as usize) * (sz as usize))
            }
            unsafe extern "C" fn zf(_o: *mut c_void, p: *mut c_void) { FREES += 1; libc_free(p) }
            extern "C" { #[link_name = "malloc"] fn libc_malloc(n: usize) -> *mut c_void; #[link_name = "free"] fn libc_free(p: *mut c_void); }
            let mut src: z_stream = std::mem::zeroed();
            src.zalloc = Some(za); src.zfree = Some(zf);
            let rc = deflateInit_(&mut src, 6, zlibVersion(), std::mem::size_of::<z_stream>() as i32);
            println!("init {rc}");
            let mut dst: z_stream = std::mem::zeroed();
            FAIL = true;
            let rc = deflateCopy(&mut dst, &mut src);
            FAIL = false;
            println!("deflateCopy rc {rc}; dst.state == src.state: {}", dst.state == src.state);
            let rc = deflateEnd(&mut dst);
            println!("deflateEnd(dst) rc {rc}, frees so far {}", FREES);
            // source is now dangling: using it would be a use-after-free; we stop here.
        } else if which == "setlevel" {
            let mut d = zlib_rs::Deflate::new(6, true, 15);
            let mut out = [0u8; 256];
            let r = d.compress(b"hello hello hello", &mut out, zlib_rs::DeflateFlush::NoFlush);
            println!("compress {r:?} out {}", d.total_out());
            let r = d.set_level(1);
            println!("set_level {r:?}");
            let r = d.compress(b" world", &mut out, zlib_rs::DeflateFlush::Finish);
            println!("compress {r:?} out {}", d.total_out());
        }
    }
}
