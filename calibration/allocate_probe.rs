use super::*;

static mut ARENA: [u8; 256] = [0xEE; 256];
static mut K: usize = 0;
static mut FAIL: bool = false;
static mut FREED: *mut c_void = core::ptr::null_mut();
static mut FREE_CALLS: u32 = 0;
static mut REQ: u32 = 0;

unsafe extern "C" fn za(_o: *mut c_void, items: c_uint, size: c_uint) -> *mut c_void {
    unsafe {
        REQ = items * size;
        if FAIL { return core::ptr::null_mut(); }
        (core::ptr::addr_of_mut!(ARENA) as *mut u8).add(32 + K) as *mut c_void
    }
}
unsafe extern "C" fn zf(_o: *mut c_void, p: *mut c_void) {
    unsafe { FREED = p; FREE_CALLS += 1; }
}

#[kani::proof]
#[kani::unwind(4)]
fn alloc_shim() {
    let k: usize = kani::any();
    kani::assume(k < 64);
    let fail: bool = kani::any();
    unsafe { K = k; FAIL = fail; }
    let size: usize = kani::any();
    kani::assume(size >= 1 && size <= 64);
    let align_log: u32 = kani::any();
    kani::assume(align_log <= 6);
    let layout = Layout::from_size_align(size, 1usize << align_log).unwrap();
    let a = Allocator { zalloc: za, zfree: zf, opaque: core::ptr::null_mut(), _marker: PhantomData };
    let p = a.allocate_layout(layout) as *mut u8;
    let base = unsafe { (core::ptr::addr_of_mut!(ARENA) as *mut u8).add(32 + k) };
    if fail { assert!(p.is_null()); return; }
    assert!(!p.is_null());
    let req = unsafe { REQ } as usize;
    // inside the block handed out by zalloc
    assert!(p as usize >= base as usize + core::mem::size_of::<*mut c_void>());
    assert!(p as usize + size <= base as usize + req);
    assert!((p as usize) % (1usize << align_log) == 0);
    unsafe { a.deallocate(p, size) };
    assert!(unsafe { FREE_CALLS } == 1);
    assert!(unsafe { FREED } as usize == base as usize);
}
