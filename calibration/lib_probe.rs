fn mod_base(mut v: u32) -> u32 {
    // repeated subtraction: callers guarantee v < 32 * 65521
    let mut k = 0;
    while k < 32 {
        if v >= 65521 { v -= 65521; }
        k += 1;
    }
    assert!(v < 65521);
    v
}
fn ref_adler(start: u32, data: &[u8]) -> u32 {
    let n = data.len() as u32;
    let a0 = start & 0xffff;
    let b0 = start >> 16;
    let mut a = a0;
    let mut b = b0 + n * a0;
    let mut i = 0u32;
    for &x in data {
        a += x as u32;
        b += (n - i) * x as u32;
        i += 1;
    }
    (mod_base(b) << 16) | mod_base(a)
}

#[kani::proof]
#[kani::unwind(34)]
fn adler_small() {
    let data: [u8; 17] = kani::any();
    let len: usize = kani::any();
    kani::assume(len <= 17);
    let start: u32 = kani::any();
    kani::assume((start & 0xffff) < 65521 && (start >> 16) < 65521);
    let got = crate::adler32::adler32(start, &data[..len]);
    assert_eq!(got, ref_adler(start, &data[..len]));
}

fn ref_crc(start: u32, data: &[u8]) -> u32 {
    let mut c = !start;
    for &x in data {
        c ^= x as u32;
        let mut k = 0;
        while k < 8 {
            c = if c & 1 != 0 { (c >> 1) ^ 0xedb88320 } else { c >> 1 };
            k += 1;
        }
    }
    !c
}

#[kani::proof]
#[kani::unwind(20)]
fn crc_small() {
    let data: [u8; 12] = kani::any();
    let len: usize = kani::any();
    kani::assume(len <= 12);
    let start: u32 = kani::any();
    let got = crate::crc32::crc32(start, &data[..len]);
    assert_eq!(got, ref_crc(start, &data[..len]));
}

#[kani::proof]
#[kani::unwind(12)]
fn crc_braid8() {
    let data: [u8; 8] = kani::any();
    let start: u32 = kani::any();
    let got = crate::crc32::crc32(start, &data);
    assert_eq!(got, ref_crc(start, &data));
}
#[kani::proof]
#[kani::unwind(70)]
fn crc_combine() {
    let c1: u32 = kani::any();
    let c2: u32 = kani::any();
    let op: u32 = kani::any();
    // linearity witness: combine_op(c1,c2,op) ^ combine_op(0,c2,op) == combine_op(c1,0,op)
    let a = crate::crc32::crc32_combine_op(c1, c2, op);
    let b = crate::crc32::crc32_combine_op(c1, 0, op);
    assert_eq!(a, b ^ c2);
}
