use super::*;
use crate::c_api::z_stream;

const N: usize = 5;
const OUT: usize = 40;

fn run(level: i32, roundtrip: bool) {
    let input: [u8; N] = kani::any();
    let n: u32 = kani::any();
    kani::assume(n as usize <= N);
    let mut output = [0u8; OUT];
    let mut strm = z_stream::default();
    let config = DeflateConfig { level, method: Method::Deflated, window_bits: -9, mem_level: 1, strategy: Strategy::Default };
    let rc = init(&mut strm, config);
    assert!(rc == ReturnCode::Ok);
    let stream = unsafe { DeflateStream::from_stream_mut(&mut strm) }.unwrap();
    stream.next_in = input.as_ptr() as *mut u8;
    stream.avail_in = n;
    stream.next_out = output.as_mut_ptr();
    stream.avail_out = OUT as u32;
    let rc = deflate(stream, DeflateFlush::Finish);
    assert!(rc == ReturnCode::StreamEnd);
    assert!(stream.avail_in == 0);
    assert!(stream.total_in as u32 == n);
    let produced = OUT - stream.avail_out as usize;
    assert!(stream.total_out as usize == produced);
    let _ = end(stream);
    if !roundtrip {
        // raw stored: 01 LEN NLEN data
        assert!(produced == 5 + n as usize);
        assert!(output[0] == 1);
        assert!(output[1] == n as u8 && output[2] == 0 && output[3] == !(n as u8) && output[4] == 0xff);
        let mut i = 0;
        while i < N {
            if i < n as usize { assert!(output[5 + i] == input[i]); }
            i += 1;
        }
    } else {
        let mut back = [0u8; N + 2];
        let mut istrm = z_stream::default();
        let rc = crate::inflate::init(&mut istrm, crate::inflate::InflateConfig { window_bits: -9 });
        assert!(rc == ReturnCode::Ok);
        let is = unsafe { crate::inflate::InflateStream::from_stream_mut(&mut istrm) }.unwrap();
        is.next_in = output.as_ptr() as *mut u8;
        is.avail_in = produced as u32;
        is.next_out = back.as_mut_ptr();
        is.avail_out = (N + 2) as u32;
        let rc = unsafe { crate::inflate::inflate(is, crate::InflateFlush::NoFlush) };
        assert!(rc == ReturnCode::StreamEnd);
        assert!(is.avail_in == 0);
        assert!(is.total_out as u32 == n);
        let mut i = 0;
        while i < N {
            if i < n as usize { assert!(back[i] == input[i]); }
            i += 1;
        }
        crate::inflate::end(is);
    }
}

#[kani::proof]
#[kani::unwind(12)]
fn stored_oneshot() { run(0, false); }

#[kani::proof]
#[kani::unwind(40)]
fn quick_roundtrip() { run(1, true); }

#[kani::proof]
#[kani::unwind(20)]
fn bitwriter_pack() {
    let mut mem = [core::mem::MaybeUninit::<u8>::new(0); 40];
    let pending = unsafe { Pending::from_raw_parts(mem.as_mut_ptr(), 40) };
    let mut bw = BitWriter::from_pending(pending);
    let mut acc: u128 = 0;
    let mut nbits: u32 = 0;
    let mut k = 0;
    while k < 4 {
        let len: u8 = kani::any();
        kani::assume(len >= 1 && len <= 31);
        let val: u64 = kani::any();
        kani::assume(val < (1u64 << len));
        bw.send_bits(val, len);
        acc |= (val as u128) << nbits;
        nbits += len as u32;
        k += 1;
    }
    bw.emit_align();
    let nbytes = ((nbits + 7) / 8) as usize;
    assert!(bw.pending.pending().len() == nbytes);
    let mut i = 0;
    while i < 16 {
        if i < nbytes { assert!(bw.pending.pending()[i] == (acc >> (8 * i)) as u8); }
        i += 1;
    }
    assert!(bw.bits_valid == 0 && bw.bit_buffer == 0);
}

// exhaustive-by-solver: encode_len/encode_dist with static trees agree with RFC 1951 3.2.5 tables
fn rfc_len(len: u16) -> (u16, u8, u16) {
    // returns (symbol, extra bits, extra value) for match length 3..=258
    const BASE: [u16; 29] = [3,4,5,6,7,8,9,10,11,13,15,17,19,23,27,31,35,43,51,59,67,83,99,115,131,163,195,227,258];
    const EXTRA: [u8; 29] = [0,0,0,0,0,0,0,0,1,1,1,1,2,2,2,2,3,3,3,3,4,4,4,4,5,5,5,5,0];
    let mut i = 28;
    while BASE[i] > len { i -= 1; }
    (257 + i as u16, EXTRA[i], len - BASE[i])
}
fn rfc_dist(dist: u16) -> (u16, u8, u16) {
    const BASE: [u16; 30] = [1,2,3,4,5,7,9,13,17,25,33,49,65,97,129,193,257,385,513,769,1025,1537,2049,3073,4097,6145,8193,12289,16385,24577];
    const EXTRA: [u8; 30] = [0,0,0,0,1,1,2,2,3,3,4,4,5,5,6,6,7,7,8,8,9,9,10,10,11,11,12,12,13,13];
    let mut i = 29;
    while BASE[i] > dist { i -= 1; }
    (i as u16, EXTRA[i], dist - BASE[i])
}
fn rfc_fixed_lit_code(sym: u16) -> (u16, u8) {
    // RFC 1951 3.2.6, code MSB-first
    if sym <= 143 { (0x30 + sym, 8) } else if sym <= 255 { (0x190 + (sym - 144), 9) } else if sym <= 279 { (sym - 256, 7) } else { (0xc0 + (sym - 280), 8) }
}
fn rev16(v: u16, n: u8) -> u16 { v.reverse_bits() >> (16 - n) }

#[kani::proof]
#[kani::unwind(32)]
fn static_encode_matches_rfc() {
    let len: u16 = kani::any();
    kani::assume(len >= 3 && len <= 258);
    let dist: u16 = kani::any();
    kani::assume(dist >= 1 && dist <= 32768);
    let (lb, ln) = encode_len(&self::trees_tbl::STATIC_LTREE, (len - 3) as u8);
    let (sym, ex, exv) = rfc_len(len);
    let (code, clen) = rfc_fixed_lit_code(sym);
    assert!(ln == clen as usize + ex as usize);
    assert!(lb == (rev16(code, clen) as u64) | ((exv as u64) << clen));
    let (db, dn) = encode_dist(&self::trees_tbl::STATIC_DTREE, dist);
    let (dsym, dex, dexv) = rfc_dist(dist);
    assert!(dn == 5 + dex as usize);
    assert!(db == (rev16(dsym, 5) as u64) | ((dexv as u64) << 5));
}

// ---------- typed deflate state (bypasses init): w_bits 9, lit_bufsize LB
const WB: usize = 9;
const WS: usize = 1 << WB;
const LB: usize = 16; // pending = 64 bytes, sym_buf = 48 bytes

struct Mem {
    window: [u8; 2 * WS],
    prev: [u16; WS],
    head: [u16; HASH_SIZE],
    pending: [MaybeUninit<u8>; 4 * LB],
    sym: [u8; 3 * LB],
}

unsafe extern "C" fn za(_o: *mut core::ffi::c_void, _i: u32, _s: u32) -> *mut core::ffi::c_void { core::ptr::null_mut() }
unsafe extern "C" fn zf(_o: *mut core::ffi::c_void, _p: *mut core::ffi::c_void) {}

fn typed_state<'a>(mem: &'a mut Mem, level: i8, wrap: i8, strategy: Strategy) -> State<'a> {
    typed_state2(&mut mem.window, &mut mem.prev, &mut mem.head, &mut mem.pending, &mut mem.sym, level, wrap, strategy)
}
fn typed_state2<'a>(w: &'a mut [u8; 2 * WS], p: &'a mut [u16; WS], h: &'a mut [u16; HASH_SIZE], pe: &'a mut [MaybeUninit<u8>; 4 * LB], sy: &'a mut [u8; 3 * LB], level: i8, wrap: i8, strategy: Strategy) -> State<'a> {
    let window = unsafe { Window::from_raw_parts(w.as_mut_ptr(), WB) };
    let prev = unsafe { WeakSliceMut::from_raw_parts_mut(p.as_mut_ptr(), WS) };
    let head = unsafe { WeakArrayMut::<Pos, HASH_SIZE>::from_ptr(h as *mut [u16; HASH_SIZE]) };
    let pending = unsafe { Pending::from_raw_parts(pe.as_mut_ptr(), 4 * LB) };
    let sym_buf = unsafe { SymBuf::from_raw_parts(sy.as_mut_ptr(), LB) };
    let mut state = State {
        status: Status::Init,
        w_size: WS,
        window, prev, head,
        bit_writer: BitWriter::from_pending(pending),
        lit_bufsize: LB,
        sym_buf,
        level, strategy,
        last_flush: 0, wrap, strstart: 0, block_start: 0, block_open: 0, window_size: 0, insert: 0,
        matches: 0, opt_len: 0, static_len: 0, lookahead: 0, ins_h: 0, max_chain_length: 0,
        max_lazy_match: 0, good_match: 0, nice_match: 0,
        l_desc: TreeDesc::EMPTY, d_desc: TreeDesc::EMPTY, bl_desc: TreeDesc::EMPTY,
        crc_fold: Crc32Fold::new(), gzhead: None, gzindex: 0,
        match_start: 0, prev_match: 0, match_available: false, prev_length: 0,
        allocation_start: NonNull::dangling(), total_allocation_size: 0,
        hash_calc_variant: HashCalcVariant::Standard,
        _cache_line_0: (), _cache_line_1: (), _cache_line_2: (), _cache_line_3: (), _padding_0: [0; 16],
    };
    state
}

fn typed_stream<'a>(state: &'a mut State<'a>) -> DeflateStream<'a> {
    DeflateStream {
        next_in: core::ptr::null_mut(), avail_in: 0, total_in: 0,
        next_out: core::ptr::null_mut(), avail_out: 0, total_out: 0,
        msg: core::ptr::null(), state,
        alloc: Allocator { zalloc: za, zfree: zf, opaque: core::ptr::null_mut(), _marker: PhantomData },
        data_type: 0, adler: 0, reserved: 0,
    }
}

fn stub_pn(_m: &'static str) -> ! { panic!("UB precondition (panic_nounwind)") }
fn stub_pnf(_f: core::fmt::Arguments<'_>, _b: bool) -> ! { panic!("UB precondition (panic_nounwind_fmt)") }
fn stub_fmt_write(_o: &mut dyn core::fmt::Write, _a: core::fmt::Arguments<'_>) -> core::fmt::Result { Ok(()) }

// level 0 one-shot, typed
#[kani::proof]
#[kani::unwind(8)]
#[kani::stub(core::fmt::write, stub_fmt_write)]
#[kani::stub(core::panicking::panic_nounwind, stub_pn)]
#[kani::stub(core::panicking::panic_nounwind_fmt, stub_pnf)]
fn typed_stored_oneshot() {
    let mut mem = Mem { window: [0; 2 * WS], prev: [0; WS], head: [0; HASH_SIZE], pending: [MaybeUninit::new(0); 4 * LB], sym: [0; 3 * LB] };
    let mut state = typed_state(&mut mem, 0, 0, Strategy::Default);
    let mut stream = typed_stream(unsafe { &mut *(&mut state as *mut State) });
    // reset without head.fill (already zero): emulate reset_keep + lm_init minus the 64K fill
    let rc = reset_keep(&mut stream);
    assert!(rc == ReturnCode::Ok);
    stream.state.window_size = 2 * WS;
    const N: usize = 6;
    let input: [u8; N] = kani::any();
    let n: u32 = kani::any();
    kani::assume(n as usize <= N);
    let mut out = [0u8; 24];
    let avail_out: u32 = kani::any();
    kani::assume(avail_out >= 1 && avail_out <= 24);
    stream.next_in = input.as_ptr() as *mut u8; stream.avail_in = n;
    stream.next_out = out.as_mut_ptr(); stream.avail_out = avail_out;
    let rc = deflate(&mut stream, DeflateFlush::Finish);
    assert!(matches!(rc, ReturnCode::Ok | ReturnCode::StreamEnd));
    let produced = (avail_out - stream.avail_out) as usize;
    assert!(stream.total_out as usize == produced);
    if avail_out as usize >= 5 + N { assert!(rc == ReturnCode::StreamEnd); }
    if rc == ReturnCode::StreamEnd {
        assert!(produced == 5 + n as usize);
        assert!(out[0] == 1 && out[1] == n as u8 && out[2] == 0 && out[3] == !(n as u8) && out[4] == 0xff);
        let mut i = 0; while i < N { if i < n as usize { assert!(out[5 + i] == input[i]); } i += 1; }
    }
    kani::cover!(rc == ReturnCode::Ok && produced > 0);
    core::mem::forget(stream);
    core::mem::forget(state);
}

#[kani::stub(<[u16]>::fill, stub_fill)]
#[kani::stub(<[u8]>::fill, stub_fill)]
#[kani::proof]
#[kani::unwind(8)]
#[kani::stub(core::fmt::write, stub_fmt_write)]
#[kani::stub(core::panicking::panic_nounwind, stub_pn)]
#[kani::stub(core::panicking::panic_nounwind_fmt, stub_pnf)]
fn typed_quick_oneshot() {
    let mut w = [0u8; 2 * WS]; let mut p = [0u16; WS]; let mut h = [0u16; HASH_SIZE];
    let mut pe = [MaybeUninit::new(0u8); 4 * LB]; let mut sy = [0u8; 3 * LB];
    let mut state = typed_state2(&mut w, &mut p, &mut h, &mut pe, &mut sy, 1, 0, Strategy::Default);
    let mut stream = typed_stream(unsafe { &mut *(&mut state as *mut State) });
    let rc = reset_keep(&mut stream);
    assert!(rc == ReturnCode::Ok);
    stream.state.window_size = 2 * WS;
    lm_set_level(stream.state, 1);
    const N: usize = 3;
    let input: [u8; N] = kani::any();
    let n: u32 = 3;
    let mut out = [0u8; 24];
    stream.next_in = input.as_ptr() as *mut u8; stream.avail_in = n;
    stream.next_out = out.as_mut_ptr(); stream.avail_out = 24;
    let rc = deflate(&mut stream, DeflateFlush::Finish);
    assert!(rc == ReturnCode::StreamEnd);
    let produced = (24 - stream.avail_out) as usize;
    assert!(produced >= 2 && produced <= 2 + 2 * N);
    // first 3 bits: BFINAL=1, BTYPE=01
    assert!(out[0] & 7 == 0b011);
    core::mem::forget(stream);
    core::mem::forget(state);
}

#[kani::proof]
#[kani::unwind(8)]
#[kani::stub(core::fmt::write, stub_fmt_write)]
#[kani::stub(core::panicking::panic_nounwind, stub_pn)]
#[kani::stub(core::panicking::panic_nounwind_fmt, stub_pnf)]
#[kani::stub(<[u16]>::fill, stub_fill)]
#[kani::stub(<[u8]>::fill, stub_fill)]
fn reset_equals_fresh() {
    let level: i8 = kani::any();
    kani::assume(level >= 0 && level <= 9);
    let wrap0: i8 = kani::any();
    kani::assume(wrap0 >= 0 && wrap0 <= 2);
    let mut mem_a = Mem { window: [0; 2 * WS], prev: [0; WS], head: [0; HASH_SIZE], pending: [MaybeUninit::new(0); 4 * LB], sym: [0; 3 * LB] };
    let mut mem_b = Mem { window: [0; 2 * WS], prev: [0; WS], head: [0; HASH_SIZE], pending: [MaybeUninit::new(0); 4 * LB], sym: [0; 3 * LB] };
    let mut a = typed_state(&mut mem_a, level, wrap0, Strategy::Default);
    let mut b = typed_state(&mut mem_b, level, wrap0, Strategy::Default);
    // dirty every scalar of `a`
    a.wrap = if kani::any() { wrap0 } else { -wrap0 };
    a.last_flush = kani::any(); a.strstart = kani::any(); a.block_start = kani::any(); a.block_open = kani::any();
    a.window_size = kani::any(); a.insert = kani::any(); a.matches = kani::any(); a.opt_len = kani::any();
    a.static_len = kani::any(); a.lookahead = kani::any(); a.ins_h = kani::any(); a.match_start = kani::any();
    a.prev_match = kani::any(); a.match_available = kani::any(); a.prev_length = kani::any(); a.gzindex = kani::any();
    a.bit_writer.bit_buffer = kani::any(); a.bit_writer.bits_valid = kani::any(); a.bit_writer.bits_used = kani::any();
    a.max_chain_length = kani::any(); a.max_lazy_match = kani::any(); a.good_match = kani::any(); a.nice_match = kani::any();
    let mut sa = typed_stream(unsafe { &mut *(&mut a as *mut State) });
    let mut sb = typed_stream(unsafe { &mut *(&mut b as *mut State) });
    sa.total_in = kani::any(); sa.total_out = kani::any(); sa.adler = kani::any(); sa.data_type = kani::any();
    assert!(reset(&mut sa) == ReturnCode::Ok);
    assert!(reset(&mut sb) == ReturnCode::Ok);
    assert!(sa.total_in == sb.total_in && sa.total_out == sb.total_out && sa.adler == sb.adler && sa.data_type == sb.data_type);
    let (x, y) = (&sa.state, &sb.state);
    assert!(x.status == y.status && x.wrap == y.wrap && x.last_flush == y.last_flush);
    assert!(x.strstart == y.strstart && x.block_start == y.block_start && x.lookahead == y.lookahead && x.insert == y.insert);
    assert!(x.window_size == y.window_size && x.matches == y.matches && x.opt_len == y.opt_len && x.static_len == y.static_len);
    assert!(x.match_start == y.match_start && x.match_available == y.match_available && x.prev_length == y.prev_length && x.ins_h == y.ins_h);
    assert!(x.bit_writer.bit_buffer == y.bit_writer.bit_buffer && x.bit_writer.bits_valid == y.bit_writer.bits_valid && x.bit_writer.bits_used == y.bit_writer.bits_used);
    assert!(x.max_chain_length == y.max_chain_length && x.max_lazy_match == y.max_lazy_match && x.good_match == y.good_match && x.nice_match == y.nice_match);
    assert!(x.bit_writer.pending.pending == y.bit_writer.pending.pending);
    assert!(x.block_open == y.block_open, "block_open survives reset");
    core::mem::forget(sa); core::mem::forget(sb);
}

#[kani::proof]
#[kani::unwind(8)]
#[kani::stub(core::fmt::write, stub_fmt_write)]
#[kani::stub(core::panicking::panic_nounwind, stub_pn)]
#[kani::stub(core::panicking::panic_nounwind_fmt, stub_pnf)]
fn typed_stored_sep() {
    let mut w = [0u8; 2 * WS]; let mut p = [0u16; WS]; let mut h = [0u16; HASH_SIZE];
    let mut pe = [MaybeUninit::new(0u8); 4 * LB]; let mut sy = [0u8; 3 * LB];
    let mut state = typed_state2(&mut w, &mut p, &mut h, &mut pe, &mut sy, 0, 0, Strategy::Default);
    let mut stream = typed_stream(unsafe { &mut *(&mut state as *mut State) });
    let rc = reset_keep(&mut stream);
    assert!(rc == ReturnCode::Ok);
    stream.state.window_size = 2 * WS;
    const N: usize = 6;
    let input: [u8; N] = kani::any();
    let n: u32 = kani::any();
    kani::assume(n as usize <= N);
    let mut out = [0u8; 24];
    let avail_out: u32 = kani::any();
    kani::assume(avail_out >= 1 && avail_out <= 24);
    stream.next_in = input.as_ptr() as *mut u8; stream.avail_in = n;
    stream.next_out = out.as_mut_ptr(); stream.avail_out = avail_out;
    let rc = deflate(&mut stream, DeflateFlush::Finish);
    assert!(matches!(rc, ReturnCode::Ok | ReturnCode::StreamEnd));
    let produced = (avail_out - stream.avail_out) as usize;
    assert!(stream.total_out as usize == produced);
    if avail_out as usize >= 5 + N { assert!(rc == ReturnCode::StreamEnd); }
    if rc == ReturnCode::StreamEnd {
        assert!(produced == 5 + n as usize);
        assert!(out[0] == 1 && out[1] == n as u8 && out[2] == 0 && out[3] == !(n as u8) && out[4] == 0xff);
        let mut i = 0; while i < N { if i < n as usize { assert!(out[5 + i] == input[i]); } i += 1; }
    }
    kani::cover!(rc == ReturnCode::Ok && produced > 0);
    core::mem::forget(stream);
    core::mem::forget(state);
}

#[kani::proof]
#[kani::unwind(8)]
#[kani::stub(core::fmt::write, stub_fmt_write)]
#[kani::stub(core::panicking::panic_nounwind, stub_pn)]
#[kani::stub(core::panicking::panic_nounwind_fmt, stub_pnf)]
fn stored_direct() {
    let mut w = [0u8; 2 * WS]; let mut p = [0u16; WS]; let mut h = [0u16; HASH_SIZE];
    let mut pe = [MaybeUninit::new(0u8); 4 * LB]; let mut sy = [0u8; 3 * LB];
    let mut state = typed_state2(&mut w, &mut p, &mut h, &mut pe, &mut sy, 0, 0, Strategy::Default);
    state.status = Status::Busy;
    state.window_size = 2 * WS;
    state.last_flush = -2;
    let mut stream = typed_stream(unsafe { &mut *(&mut state as *mut State) });
    const N: usize = 6;
    let input: [u8; N] = kani::any();
    let n: u32 = kani::any();
    kani::assume(n as usize <= N);
    let mut out = [0u8; 24];
    let avail_out: u32 = kani::any();
    kani::assume(avail_out >= 1 && avail_out <= 24);
    stream.next_in = input.as_ptr() as *mut u8; stream.avail_in = n;
    stream.next_out = out.as_mut_ptr(); stream.avail_out = avail_out;
    let bs = self::algorithm::run(&mut stream, DeflateFlush::Finish);
    let produced = (avail_out - stream.avail_out) as usize;
    assert!(stream.total_out as usize == produced);
    assert!(stream.total_in as u32 + stream.avail_in == n);
    if matches!(bs, BlockState::FinishDone) {
        assert!(produced == 5 + n as usize);
        assert!(out[0] == 1 && out[1] == n as u8 && out[2] == 0 && out[3] == !(n as u8) && out[4] == 0xff);
        let mut i = 0; while i < N { if i < n as usize { assert!(out[5 + i] == input[i]); } i += 1; }
    }
    kani::cover!(matches!(bs, BlockState::FinishDone) && n == 6);
    kani::cover!(matches!(bs, BlockState::FinishStarted));
    core::mem::forget(stream);
    core::mem::forget(state);
}

#[kani::proof]
#[kani::unwind(6)]
#[kani::stub(core::fmt::write, stub_fmt_write)]
#[kani::stub(core::panicking::panic_nounwind, stub_pn)]
#[kani::stub(core::panicking::panic_nounwind_fmt, stub_pnf)]
fn stored_direct_conc() {
    let mut w = [0u8; 2 * WS]; let mut p = [0u16; WS]; let mut h = [0u16; HASH_SIZE];
    let mut pe = [MaybeUninit::new(0u8); 4 * LB]; let mut sy = [0u8; 3 * LB];
    let mut state = typed_state2(&mut w, &mut p, &mut h, &mut pe, &mut sy, 0, 0, Strategy::Default);
    state.status = Status::Busy;
    state.window_size = 2 * WS;
    state.last_flush = -2;
    let mut stream = typed_stream(unsafe { &mut *(&mut state as *mut State) });
    const N: usize = 6;
    let input: [u8; N] = kani::any();
    let n: u32 = 6;
    let mut out = [0u8; 24];
    let avail_out: u32 = 24;
    stream.next_in = input.as_ptr() as *mut u8; stream.avail_in = n;
    stream.next_out = out.as_mut_ptr(); stream.avail_out = avail_out;
    let bs = self::algorithm::run(&mut stream, DeflateFlush::Finish);
    let produced = (avail_out - stream.avail_out) as usize;
    assert!(stream.total_out as usize == produced);
    assert!(stream.total_in as u32 + stream.avail_in == n);
    if matches!(bs, BlockState::FinishDone) {
        assert!(produced == 5 + n as usize);
        assert!(out[0] == 1 && out[1] == n as u8 && out[2] == 0 && out[3] == !(n as u8) && out[4] == 0xff);
        let mut i = 0; while i < N { if i < n as usize { assert!(out[5 + i] == input[i]); } i += 1; }
    }
    kani::cover!(matches!(bs, BlockState::FinishDone) && n == 6);
    
    core::mem::forget(stream);
    core::mem::forget(state);
}

fn stub_fill<T: Clone>(s: &mut [T], _v: T) {
    // model: zero-fill via memset (only used for head.fill(0) / sym_buf fill(0))
    unsafe { core::ptr::write_bytes(s.as_mut_ptr(), 0u8, s.len()) };
}

#[kani::proof]
#[kani::unwind(8)]
#[kani::stub(core::fmt::write, stub_fmt_write)]
#[kani::stub(core::panicking::panic_nounwind, stub_pn)]
#[kani::stub(core::panicking::panic_nounwind_fmt, stub_pnf)]
#[kani::stub(<[u16]>::fill, stub_fill)]
fn lm_init_probe() {
    let mut w = [0u8; 2 * WS]; let mut p = [0u16; WS]; let mut h = [0u16; HASH_SIZE];
    let mut pe = [MaybeUninit::new(0u8); 4 * LB]; let mut sy = [0u8; 3 * LB];
    let mut state = typed_state2(&mut w, &mut p, &mut h, &mut pe, &mut sy, 1, 0, Strategy::Default);
    state.block_open = kani::any();
    state.strstart = kani::any();
    lm_init(&mut state);
    assert!(state.strstart == 0);
    let i: usize = kani::any();
    kani::assume(i < HASH_SIZE);
    assert!(state.head.as_slice()[i] == 0);
    core::mem::forget(state);
}

#[kani::proof]
#[kani::unwind(8)]
#[kani::stub(core::fmt::write, stub_fmt_write)]
#[kani::stub(core::panicking::panic_nounwind, stub_pn)]
#[kani::stub(core::panicking::panic_nounwind_fmt, stub_pnf)]
fn copy_alloc_failure() {
    let mut w = [0u8; 2 * WS]; let mut p = [0u16; WS]; let mut h = [0u16; HASH_SIZE];
    let mut pe = [MaybeUninit::new(0u8); 4 * LB]; let mut sy = [0u8; 3 * LB];
    let mut state = typed_state2(&mut w, &mut p, &mut h, &mut pe, &mut sy, 6, 1, Strategy::Default);
    state.window_size = 2 * WS;
    let src_state_ptr = &mut state as *mut State as usize;
    let mut stream = typed_stream(unsafe { &mut *(&mut state as *mut State) });
    let mut dest = MaybeUninit::<DeflateStream>::zeroed();
    let rc = copy(&mut dest, &mut stream); // allocator in typed_stream always fails
    assert!(rc == ReturnCode::MemError);
    // End-safety of the destination: it must not alias the source's state
    let dest_state = unsafe { *(core::ptr::addr_of!((*dest.as_ptr()).state) as *const usize) };
    assert!(dest_state != src_state_ptr, "failed copy leaves dest.state aliasing the source state");
    core::mem::forget(stream); core::mem::forget(state);
}

fn stub_run(stream: &mut DeflateStream, flush: DeflateFlush) -> BlockState {
    // contract stub: consumes all input, emits nothing, reports completion according to flush
    stream.total_in += stream.avail_in as crate::c_api::z_size;
    stream.next_in = stream.next_in.wrapping_add(stream.avail_in as usize);
    stream.avail_in = 0;
    if flush == DeflateFlush::Finish { BlockState::FinishDone } else if flush == DeflateFlush::NoFlush { BlockState::NeedMore } else { BlockState::BlockDone }
}

#[kani::proof]
#[kani::unwind(10)]
#[kani::stub(core::fmt::write, stub_fmt_write)]
#[kani::stub(core::panicking::panic_nounwind, stub_pn)]
#[kani::stub(core::panicking::panic_nounwind_fmt, stub_pnf)]
#[kani::stub(crate::deflate::algorithm::run, stub_run)]
#[kani::stub(<[u16]>::fill, stub_fill)]
fn zlib_wrapper_machine() {
    let mut w = [0u8; 2 * WS]; let mut p = [0u16; WS]; let mut h = [0u16; HASH_SIZE];
    let mut pe = [MaybeUninit::new(0u8); 4 * LB]; let mut sy = [0u8; 3 * LB];
    let level: i8 = kani::any(); kani::assume(level >= 0 && level <= 9);
    let st: u8 = kani::any();
    let strategy = match st % 5 { 0 => Strategy::Default, 1 => Strategy::Filtered, 2 => Strategy::HuffmanOnly, 3 => Strategy::Rle, _ => Strategy::Fixed };
    let mut state = typed_state2(&mut w, &mut p, &mut h, &mut pe, &mut sy, level, 1, strategy);
    state.w_size = 512; state.window_size = 1024; state.last_flush = -2; state.status = Status::Init;
    let has_dict: bool = kani::any();
    state.strstart = if has_dict { 5 } else { 0 };
    let mut stream = typed_stream(unsafe { &mut *(&mut state as *mut State) });
    let dictid: u32 = kani::any();
    stream.adler = dictid as _;
    let input = [1u8, 2, 3];
    let mut out = [0u8; 16];
    let flush_sel: u8 = kani::any();
    let flush = match flush_sel % 3 { 0 => DeflateFlush::Finish, 1 => DeflateFlush::SyncFlush, _ => DeflateFlush::FullFlush };
    stream.next_in = input.as_ptr() as *mut u8; stream.avail_in = 3;
    stream.next_out = out.as_mut_ptr(); stream.avail_out = 16;
    let rc = deflate(&mut stream, flush);
    let produced = 16 - stream.avail_out as usize;
    // RFC 1950 header
    let cmf = out[0]; let flg = out[1];
    assert!(cmf & 0x0f == 8);
    assert!((cmf >> 4) as usize + 8 == 9);
    assert!(((cmf as u16) << 8 | flg as u16) % 31 == 0);
    assert!((flg & 0x20 != 0) == has_dict);
    let hdr = if has_dict { 6 } else { 2 };
    if has_dict { assert!(u32::from_be_bytes([out[2], out[3], out[4], out[5]]) == dictid); }
    match flush {
        DeflateFlush::Finish => {
            assert!(rc == ReturnCode::StreamEnd);
            assert!(produced == hdr + 4);
            // stub emitted no data and adler was reset to 1 after the header
            assert!(out[hdr] == 0 && out[hdr + 1] == 0 && out[hdr + 2] == 0 && out[hdr + 3] == 1);
        }
        _ => {
            assert!(rc == ReturnCode::Ok);
            // empty stored block marker, byte aligned
            assert!(produced == hdr + 5);
            assert!(out[hdr] == 0 && out[hdr + 1] == 0 && out[hdr + 2] == 0 && out[hdr + 3] == 0xff && out[hdr + 4] == 0xff);
        }
    }
    assert!(stream.total_out as usize == produced);
    core::mem::forget(stream); core::mem::forget(state);
}

// reference decoder for a single final fixed-Huffman block (RFC 1951 3.2.6), harness-side oracle
struct Bits<'a> { d: &'a [u8], pos: usize }
impl<'a> Bits<'a> {
    fn bit(&mut self) -> u32 { let b = (self.d[self.pos >> 3] >> (self.pos & 7)) & 1; self.pos += 1; b as u32 }
    fn bits(&mut self, n: u32) -> u32 { let mut v = 0; let mut i = 0; while i < n { v |= self.bit() << i; i += 1; } v }
    fn code(&mut self, n: u32) -> u32 { let mut v = 0; let mut i = 0; while i < n { v = (v << 1) | self.bit(); i += 1; } v }
}
fn ref_inflate_fixed(src: &[u8], dst: &mut [u8]) -> Option<usize> {
    const LBASE: [u16; 29] = [3,4,5,6,7,8,9,10,11,13,15,17,19,23,27,31,35,43,51,59,67,83,99,115,131,163,195,227,258];
    const LEXT: [u8; 29] = [0,0,0,0,0,0,0,0,1,1,1,1,2,2,2,2,3,3,3,3,4,4,4,4,5,5,5,5,0];
    const DBASE: [u16; 30] = [1,2,3,4,5,7,9,13,17,25,33,49,65,97,129,193,257,385,513,769,1025,1537,2049,3073,4097,6145,8193,12289,16385,24577];
    const DEXT: [u8; 30] = [0,0,0,0,1,1,2,2,3,3,4,4,5,5,6,6,7,7,8,8,9,9,10,10,11,11,12,12,13,13];
    let mut b = Bits { d: src, pos: 0 };
    if b.bits(3) != 0b011 { return None; }
    let mut n = 0usize;
    let mut guard = 0;
    while guard < 8 {
        guard += 1;
        let mut c = b.code(7);
        let sym = if c <= 0x17 { 256 + c } else {
            c = (c << 1) | b.bit();
            if c >= 0x30 && c <= 0xbf { c - 0x30 } else if c >= 0xc0 && c <= 0xc7 { 280 + c - 0xc0 } else {
                c = (c << 1) | b.bit();
                144 + c - 0x190
            }
        };
        if sym < 256 { if n >= dst.len() { return None; } dst[n] = sym as u8; n += 1; }
        else if sym == 256 { return Some(n); }
        else {
            let li = (sym - 257) as usize; if li >= 29 { return None; }
            let len = LBASE[li] as usize + b.bits(LEXT[li] as u32) as usize;
            let dc = b.code(5) as usize; if dc >= 30 { return None; }
            let dist = DBASE[dc] as usize + b.bits(DEXT[dc] as u32) as usize;
            if dist > n || n + len > dst.len() { return None; }
            let mut k = 0; while k < len { dst[n] = dst[n - dist]; n += 1; k += 1; }
        }
    }
    None
}

#[kani::proof]
#[kani::unwind(16)]
#[kani::stub(core::fmt::write, stub_fmt_write)]
#[kani::stub(core::panicking::panic_nounwind, stub_pn)]
#[kani::stub(core::panicking::panic_nounwind_fmt, stub_pnf)]
#[kani::stub(<[u16]>::fill, stub_fill)]
#[kani::stub(<[u8]>::fill, stub_fill)]
fn quick_roundtrip_n5() {
    let mut w = [0u8; 2 * WS]; let mut p = [0u16; WS]; let mut h = [0u16; HASH_SIZE];
    let mut pe = [MaybeUninit::new(0u8); 4 * LB]; let mut sy = [0u8; 3 * LB];
    let mut state = typed_state2(&mut w, &mut p, &mut h, &mut pe, &mut sy, 1, 0, Strategy::Default);
    let mut stream = typed_stream(unsafe { &mut *(&mut state as *mut State) });
    assert!(reset_keep(&mut stream) == ReturnCode::Ok);
    stream.state.window_size = 2 * WS;
    lm_set_level(stream.state, 1);
    const N: usize = 5;
    let input: [u8; N] = kani::any();
    let mut out = [0u8; 16];
    stream.next_in = input.as_ptr() as *mut u8; stream.avail_in = N as u32;
    stream.next_out = out.as_mut_ptr(); stream.avail_out = 14;
    let rc = deflate(&mut stream, DeflateFlush::Finish);
    assert!(rc == ReturnCode::StreamEnd);
    let produced = (14 - stream.avail_out) as usize;
    core::mem::forget(stream); core::mem::forget(state);
    let mut back = [0u8; N];
    let r = ref_inflate_fixed(&out, &mut back);
    assert!(r == Some(N));
    let mut i = 0; while i < N { assert!(back[i] == input[i]); i += 1; }
    kani::cover!(produced <= 5); // a match was emitted
}
