use super::*;
use crate::c_api::z_stream;
use core::mem::MaybeUninit;

fn stub_table(
    _codetype: inftrees::CodeType,
    _lens: &[u16],
    _table: &mut [Code],
    _bits: usize,
    _work: &mut [u16],
) -> inftrees::InflateTable {
    kani::assume(false);
    inftrees::InflateTable::InvalidCode
}

fn stub_fmt_write(_o: &mut dyn core::fmt::Write, _a: core::fmt::Arguments<'_>) -> core::fmt::Result { Ok(()) }

const N: usize = 3;
const OUT: usize = 24;

#[kani::proof]
#[kani::unwind(40)]
#[kani::stub(crate::inflate::inftrees::inflate_table, stub_table)]
#[kani::stub(core::fmt::write, stub_fmt_write)]
fn inflate_one_call() {
    let input: [u8; N] = kani::any();
    let mut output = [0u8; OUT];
    let wb: i32 = kani::any();
    kani::assume(wb == -15);
    let mut strm = z_stream::default();
    let rc = init(&mut strm, InflateConfig { window_bits: wb });
    assert!(rc == ReturnCode::Ok);
    let stream = unsafe { InflateStream::from_stream_mut(&mut strm) }.unwrap();
    let n_in: u32 = kani::any();
    kani::assume(n_in as usize <= N);
    let n_out: u32 = kani::any();
    kani::assume(n_out as usize <= OUT);
    stream.next_in = input.as_ptr() as *mut u8;
    stream.avail_in = n_in;
    stream.next_out = output.as_mut_ptr();
    stream.avail_out = n_out;
    let rc = unsafe { inflate(stream, InflateFlush::NoFlush) };
    assert!(matches!(rc, ReturnCode::Ok | ReturnCode::StreamEnd | ReturnCode::DataError | ReturnCode::BufError | ReturnCode::NeedDict));
    assert!(stream.avail_in <= n_in);
    assert!(stream.avail_out <= n_out);
    let consumed = (n_in - stream.avail_in) as usize;
    let produced = (n_out - stream.avail_out) as usize;
    assert!(stream.next_in as usize == input.as_ptr() as usize + consumed);
    assert!(stream.next_out as usize == output.as_ptr() as usize + produced);
    assert!(stream.total_in as usize == consumed);
    assert!(stream.total_out as usize == produced);
    kani::cover!(rc == ReturnCode::StreamEnd && produced > 0);
    end(stream);
}

// ---- inflate_table: code-length code (19 symbols, max 7 bits, root 7)
#[kani::proof]
#[kani::unwind(130)]
fn table_codes() {
    let mut lens = [0u16; 19];
    for i in 0..19 {
        let l: u16 = kani::any();
        kani::assume(l <= 7);
        lens[i] = l;
    }
    let mut table = [Code::default(); crate::ENOUGH_LENS];
    let mut work = [0u16; 288];
    let r = inftrees::inflate_table(inftrees::CodeType::Codes, &lens, &mut table, 7, &mut work);
    // Kraft sum
    let mut kraft: u32 = 0;
    let mut nz = 0;
    for i in 0..19 {
        if lens[i] != 0 { kraft += 1u32 << (7 - lens[i]); nz += 1; }
    }
    match r {
        inftrees::InflateTable::Success { root, used } => {
            assert!(nz == 0 || kraft == 128);
            assert!(root <= 7 && used <= 128);
        }
        inftrees::InflateTable::InvalidCode => assert!(nz != 0 && kraft != 128),
        inftrees::InflateTable::EnoughIsNotEnough => assert!(false),
    }
}

#[kani::proof]
#[kani::unwind(10)]
#[kani::stub(core::fmt::write, stub_fmt_write)]
fn init_only() {
    let mut strm = z_stream::default();
    let rc = init(&mut strm, InflateConfig { window_bits: -15 });
    assert!(rc == ReturnCode::Ok);
    let stream = unsafe { InflateStream::from_stream_mut(&mut strm) }.unwrap();
    end(stream);
}

#[kani::proof]
#[kani::unwind(10)]
#[kani::stub(core::fmt::write, stub_fmt_write)]
fn init_noend() {
    let mut strm = z_stream::default();
    let rc = init(&mut strm, InflateConfig { window_bits: -15 });
    assert!(rc == ReturnCode::Ok);
}

// typed-state harness: bypass init(), build State on the stack
fn run_typed(wrap: u8, input: &[u8], n_in: usize, out: &mut [u8], n_out: usize) -> (ReturnCode, usize, usize) {
    let mut win = [0u8; 64 + 64];
    let mut state = State::new(&[], Writer::new(&mut []));
    state.window = unsafe { Window::from_raw_parts(win.as_mut_ptr(), win.len()) };
    state.wrap = wrap;
    state.wbits = 15;
    state.mode = Mode::Head;
    state.checksum = 1;
    state.gzip_flags = -1;
    state.dmax = 32768;
    state.back = usize::MAX;
    unsafe { state.bit_reader.update_slice(input.as_ptr(), n_in) };
    state.writer = unsafe { Writer::new_uninit(out.as_mut_ptr(), n_out) };
    state.in_available = n_in;
    state.out_available = n_out;
    state.flush = InflateFlush::NoFlush;
    let rc = state.dispatch();
    let consumed = state.bit_reader.as_ptr() as usize - input.as_ptr() as usize;
    let produced = state.writer.len();
    core::mem::forget(state);
    (rc, consumed, produced)
}

#[kani::proof]
#[kani::unwind(40)]
#[kani::stub(crate::inflate::inftrees::inflate_table, stub_table)]
#[kani::stub(core::fmt::write, stub_fmt_write)]
#[kani::stub(core::panicking::panic_nounwind, stub_pn)]
#[kani::stub(core::panicking::panic_nounwind_fmt, stub_pnf)]
fn dispatch_typed_raw() {
    let input: [u8; N] = kani::any();
    let mut output = [0u8; OUT];
    let n_in: usize = kani::any();
    kani::assume(n_in <= N);
    let n_out: usize = kani::any();
    kani::assume(n_out <= OUT);
    let (rc, consumed, produced) = run_typed(0, &input, n_in, &mut output, n_out);
    assert!(matches!(rc, ReturnCode::Ok | ReturnCode::StreamEnd | ReturnCode::DataError));
    assert!(consumed <= n_in && produced <= n_out);
    kani::cover!(rc == ReturnCode::StreamEnd && produced > 1);
}

fn stub_ws(_s: &mut core::fmt::Formatter<'_>, _x: &str) -> core::fmt::Result { Ok(()) }

// ---- Writer::copy_match unit harness
fn copy_match_n<const NN: usize>() {
    const CAP: usize = 48;
    let mut buf: [u8; CAP] = kani::any();
    let orig = buf;
    let cap: usize = kani::any();
    kani::assume(cap <= CAP);
    let filled: usize = kani::any();
    let off: usize = kani::any();
    let len: usize = kani::any();
    kani::assume(filled <= cap && off >= 1 && off <= filled && len <= cap - filled && len <= 20);
    let mut w = unsafe { Writer::new_uninit_raw(buf.as_mut_ptr(), filled, cap) };
    w.copy_match_with_features::<NN>(off, len);
    assert!(w.len() == filled + len);
    core::mem::forget(w);
    let mut i = 0;
    while i < CAP {
        if i < filled { assert!(buf[i] == orig[i]); }
        else if i < filled + len { assert!(buf[i] == buf[i - off]); }
        i += 1;
    }
}
#[kani::proof]
#[kani::unwind(50)]
fn copy_match_generic() { copy_match_n::<{ crate::cpu_features::CpuFeatures::NONE }>(); }
#[kani::proof]
#[kani::unwind(50)]
fn copy_match_avx2() { copy_match_n::<{ crate::cpu_features::CpuFeatures::AVX2 }>(); }

#[kani::proof]
#[kani::unwind(8)]
fn trivial_typed() {
    let input = [0u8; 2];
    let mut output = [0u8; 2];
    let mut win = [0u8; 64 + 64];
    let mut state = State::new(&[], Writer::new(&mut []));
    state.window = unsafe { Window::from_raw_parts(win.as_mut_ptr(), win.len()) };
    state.mode = Mode::Done;
    unsafe { state.bit_reader.update_slice(input.as_ptr(), 2) };
    state.writer = unsafe { Writer::new_uninit(output.as_mut_ptr(), 2) };
    let rc = state.dispatch();
    assert!(rc == ReturnCode::StreamEnd);
    core::mem::forget(state);
}

#[kani::proof]
#[kani::unwind(8)]
fn expect_probe() {
    let x: usize = kani::any();
    let y: usize = kani::any();
    kani::assume(y <= x);
    let r = x.checked_sub(y).expect("name out of bounds");
    assert!(r <= x);
}
#[kani::proof]
#[kani::unwind(8)]
fn unreachable_probe() {
    let x: u8 = kani::any();
    match x & 3 {
        0 | 1 | 2 | 3 => {}
        _ => unreachable!("BitReader::bits(2) only yields a value of two bits, so this match is already exhaustive"),
    }
}

fn stub_pn(_m: &'static str) -> ! { panic!("UB precondition (panic_nounwind)") }
fn stub_pnf(_f: core::fmt::Arguments<'_>, _b: bool) -> ! { panic!("UB precondition (panic_nounwind_fmt)") }

// ---- Window::extend vs ring model, no checksum
#[kani::proof]
#[kani::unwind(14)]
fn window_extend_small() {
    const W: usize = 8;
    let mut buf = [0u8; W + 64];
    let mut window = unsafe { Window::from_raw_parts(buf.as_mut_ptr(), W + 64) };
    let mut ck = 1u32;
    let mut fold = Crc32Fold::new();
    // two extends with symbolic slices
    let a: [u8; 12] = kani::any();
    let la: usize = kani::any();
    kani::assume(la <= 12);
    let b: [u8; 12] = kani::any();
    let lb: usize = kani::any();
    kani::assume(lb <= 12);
    window.extend(&a[..la], 0, false, &mut ck, &mut fold);
    window.extend(&b[..lb], 0, false, &mut ck, &mut fold);
    let total = la + lb;
    let have = if total < W { total } else { W };
    assert!(window.have() == have);
    assert!(window.next() < W);
    // last `have` bytes of a||b must be readable back from the ring ending at next
    let mut i = 0;
    while i < W {
        if i < have {
            // i-th most recent byte
            let pos = (window.next() + W - 1 - i) % W;
            let idx = total - 1 - i;
            let expect = if idx < la { a[idx] } else { b[idx - la] };
            assert!(buf[pos] == expect);
        }
        i += 1;
    }
    core::mem::forget(window);
}

// ---- concrete stream, symbolic split point (C04-style)
#[kani::proof]
#[kani::unwind(64)]
#[kani::stub(core::fmt::write, stub_fmt_write)]
#[kani::stub(core::panicking::panic_nounwind, stub_pn)]
#[kani::stub(core::panicking::panic_nounwind_fmt, stub_pnf)]
fn split_concrete() {
    // raw deflate of "abcabcabc" produced by fixed huffman: 4b 4c 4a 4e 04 23 00  (zlib: printf abcabcabc | raw level 9)
    let input: [u8; 7] = [0x4b, 0x4c, 0x4a, 0x4e, 0x04, 0x23, 0x00];
    let mut out = [0u8; 16];
    let k: usize = kani::any();
    kani::assume(k <= 7);
    let mut win = [0u8; 64 + 64];
    let mut state = State::new(&[], Writer::new(&mut []));
    state.window = unsafe { Window::from_raw_parts(win.as_mut_ptr(), win.len()) };
    state.wrap = 0; state.wbits = 15; state.mode = Mode::Head; state.dmax = 32768; state.gzip_flags = -1;
    unsafe { state.bit_reader.update_slice(input.as_ptr(), k) };
    state.writer = unsafe { Writer::new_uninit(out.as_mut_ptr(), 16) };
    let rc1 = state.dispatch();
    let c1 = state.bit_reader.as_ptr() as usize - input.as_ptr() as usize;
    let p1 = state.writer.len();
    assert!(c1 == k || rc1 == ReturnCode::StreamEnd);
    unsafe { state.bit_reader.update_slice(input.as_ptr().add(c1), 7 - c1) };
    // same writer continues (no window needed since output buffer is contiguous)
    let rc2 = state.dispatch();
    assert!(rc2 == ReturnCode::StreamEnd);
    assert!(state.writer.len() == 9);
    let _ = p1;
    core::mem::forget(state);
    assert!(out[0] == b'a' && out[3] == b'a' && out[8] == b'c');
}

// ---- inflateBack typed harness
struct InDesc { ptr: *const u8, len: u32, given: bool }
unsafe extern "C" fn in_cb(desc: *mut core::ffi::c_void, buf: *mut *const u8) -> u32 {
    let d = unsafe { &mut *(desc as *mut InDesc) };
    if d.given { return 0; }
    d.given = true;
    unsafe { *buf = d.ptr };
    d.len
}
unsafe extern "C" fn out_cb(_desc: *mut core::ffi::c_void, _buf: *mut u8, _len: u32) -> i32 { 0 }
unsafe extern "C" fn za(_o: *mut core::ffi::c_void, _i: u32, _s: u32) -> *mut core::ffi::c_void { core::ptr::null_mut() }
unsafe extern "C" fn zf(_o: *mut core::ffi::c_void, _p: *mut core::ffi::c_void) {}

#[kani::proof]
#[kani::unwind(10)]
#[kani::stub(crate::inflate::inftrees::inflate_table, stub_table)]
#[kani::stub(core::fmt::write, stub_fmt_write)]
#[kani::stub(core::panicking::panic_nounwind, stub_pn)]
#[kani::stub(core::panicking::panic_nounwind_fmt, stub_pnf)]
fn infback_typed() {
    const NI: usize = 5;
    let mut input: [u8; NI] = kani::any();
    input[0] = (input[0] & 0xf8) | 0x03; // final block, fixed codes
    let mut win = [0u8; 256];
    let mut state = State::new(&[], Writer::new(&mut []));
    state.window = unsafe { Window::from_raw_parts(win.as_mut_ptr(), 256) };
    state.wbits = 8;
    state.flags.update(Flags::SANE, true);
    let mut desc = InDesc { ptr: input.as_ptr(), len: NI as u32, given: false };
    let mut strm = InflateStream {
        next_in: core::ptr::null_mut(), avail_in: 0, total_in: 0,
        next_out: core::ptr::null_mut(), avail_out: 0, total_out: 0,
        msg: core::ptr::null_mut(), state: &mut state,
        alloc: Allocator { zalloc: za, zfree: zf, opaque: core::ptr::null_mut(), _marker: PhantomData },
        data_type: 0, adler: 0, reserved: 0,
    };
    let rc = unsafe { back(&mut strm, in_cb, &mut desc as *mut _ as *mut core::ffi::c_void, out_cb, core::ptr::null_mut()) };
    assert!(matches!(rc, ReturnCode::StreamEnd | ReturnCode::DataError | ReturnCode::BufError));
}

// ---- gzip header chain from Mode::Flags with capture
#[kani::proof]
#[kani::unwind(20)]
#[kani::stub(crate::inflate::inftrees::inflate_table, stub_table)]
#[kani::stub(core::fmt::write, stub_fmt_write)]
#[kani::stub(core::panicking::panic_nounwind, stub_pn)]
#[kani::stub(core::panicking::panic_nounwind_fmt, stub_pnf)]
fn gzip_header_chain() {
    const NI: usize = 14;
    let input: [u8; NI] = kani::any();
    let n_in: usize = kani::any();
    kani::assume(n_in <= NI);
    let mut extra = [0xAAu8; 6];
    let mut name = [0xAAu8; 6];
    let extra_max: u32 = kani::any();
    let name_max: u32 = kani::any();
    kani::assume(extra_max <= 4 && name_max <= 4);
    let mut head = gz_header::default();
    head.extra = extra.as_mut_ptr(); head.extra_max = extra_max;
    head.name = name.as_mut_ptr(); head.name_max = name_max;
    let mut out = [0u8; 4];
    let mut win = [0u8; 64 + 64];
    let mut state = State::new(&[], Writer::new(&mut []));
    state.window = unsafe { Window::from_raw_parts(win.as_mut_ptr(), win.len()) };
    state.wrap = 2 | 4; state.wbits = 15; state.mode = Mode::Flags; state.dmax = 32768; state.gzip_flags = -1;
    state.head = Some(unsafe { &mut *(&mut head as *mut gz_header) });
    state.flush = InflateFlush::Block; // stop at Type
    unsafe { state.bit_reader.update_slice(input.as_ptr(), n_in) };
    state.in_available = n_in;
    state.writer = unsafe { Writer::new_uninit(out.as_mut_ptr(), 4) };
    let rc = state.dispatch();
    assert!(matches!(rc, ReturnCode::Ok | ReturnCode::DataError));
    let consumed = state.bit_reader.as_ptr() as usize - input.as_ptr() as usize;
    assert!(consumed <= n_in);
    core::mem::forget(state);
    // capacity respected
    assert!(extra[4] == 0xAA && extra[5] == 0xAA && name[4] == 0xAA && name[5] == 0xAA);
    let mut i = 0; while i < 4 { if i as u32 >= extra_max { assert!(extra[i] == 0xAA); } if i as u32 >= name_max { assert!(name[i] == 0xAA); } i += 1; }
    kani::cover!(head.done == 1 && head.extra_len == 2);
}

// ---- reduced inflate_table: 6 symbols, len<=4, root 2
#[kani::proof]
#[kani::unwind(20)]
#[kani::stub(core::fmt::write, stub_fmt_write)]
#[kani::stub(core::panicking::panic_nounwind, stub_pn)]
#[kani::stub(core::panicking::panic_nounwind_fmt, stub_pnf)]
fn table_reduced() {
    const NS: usize = 6;
    const ML: u16 = 4;
    let mut lens = [0u16; NS];
    let mut i = 0;
    while i < NS { let l: u16 = kani::any(); kani::assume(l <= ML); lens[i] = l; i += 1; }
    let mut table = [Code::default(); 32];
    let mut work = [0u16; 8];
    let r = inftrees::inflate_table(inftrees::CodeType::Dists, &lens, &mut table, 2, &mut work);
    let mut kraft: u32 = 0; let mut nz = 0u32; let mut maxl = 0u16;
    i = 0;
    while i < NS { if lens[i] != 0 { kraft += 1u32 << (ML - lens[i]); nz += 1; if lens[i] > maxl { maxl = lens[i]; } } i += 1; }
    let full = 1u32 << ML;
    match r {
        inftrees::InflateTable::Success { root, used } => {
            assert!(nz == 0 || kraft == full || (kraft < full && maxl == 1));
            assert!(used <= crate::ENOUGH_DISTS && root <= 2 + 0 || root <= ML as usize);
            if nz != 0 && kraft == full {
                // decode a symbolic 4-bit string through root + subtable and compare with canonical code
                let bits: usize = kani::any();
                kani::assume(bits < 16);
                let mut here = table[bits & ((1 << root) - 1)];
                let mut used_bits = here.bits as usize;
                if here.op & 0xf0 == 0 {
                    let last = here;
                    here = table[last.val as usize + ((bits & ((1 << (last.bits + last.op)) - 1)) >> last.bits)];
                    used_bits = last.bits as usize + here.bits as usize;
                }
                assert!(here.op & 64 == 0);
                assert!(used_bits >= 1 && used_bits <= ML as usize);
                // canonical code of the symbol with that length: recompute
                // find symbol: count codes
                let mut code: u32 = 0; let mut found = false; let mut sym_found = 0usize;
                let mut l = 1u16;
                while l <= ML {
                    let mut s = 0;
                    while s < NS {
                        if lens[s] == l {
                            // code (MSB-first) of symbol s is `code`; stream bits are LSB-first reversed
                            let rev = (code.reverse_bits() >> (32 - l as u32)) as usize;
                            if !found && (bits & ((1 << l) - 1)) == rev { found = true; sym_found = s; assert!(used_bits == l as usize); }
                            code += 1;
                        }
                        s += 1;
                    }
                    code <<= 1;
                    l += 1;
                }
                assert!(found);
                // Dists: val = DBASE[sym]
                const DBASE: [u16; 6] = [1, 2, 3, 4, 5, 7];
                assert!(here.val == DBASE[sym_found]);
            }
        }
        inftrees::InflateTable::InvalidCode => assert!(nz != 0 && kraft != full && !(kraft < full && maxl == 1)),
        inftrees::InflateTable::EnoughIsNotEnough => assert!(false),
    }
}

// ---- Check / Length modes (zlib + gzip) one step
#[kani::proof]
#[kani::unwind(12)]
#[kani::stub(crate::inflate::inftrees::inflate_table, stub_table)]
#[kani::stub(core::fmt::write, stub_fmt_write)]
#[kani::stub(core::panicking::panic_nounwind, stub_pn)]
#[kani::stub(core::panicking::panic_nounwind_fmt, stub_pnf)]
fn check_mode_zlib() {
    let input: [u8; 5] = kani::any();
    let n_in: usize = kani::any();
    kani::assume(n_in <= 5);
    let mut out = [0u8; 4];
    let mut win = [0u8; 64 + 64];
    let mut state = State::new(&[], Writer::new(&mut []));
    state.window = unsafe { Window::from_raw_parts(win.as_mut_ptr(), win.len()) };
    let wrap: u8 = kani::any();
    kani::assume(wrap == 1 || wrap == 5);
    state.wrap = wrap; state.wbits = 15; state.mode = Mode::Check; state.dmax = 32768; state.gzip_flags = 0;
    let ck: u32 = kani::any();
    kani::assume((ck & 0xffff) < 65521 && (ck >> 16) < 65521);
    state.checksum = ck;
    unsafe { state.bit_reader.update_slice(input.as_ptr(), n_in) };
    state.writer = unsafe { Writer::new_uninit(out.as_mut_ptr(), 4) };
    // this call's output so far: 2 symbolic bytes
    let o: [u8; 2] = kani::any();
    state.writer.push(o[0]); state.writer.push(o[1]);
    state.out_available = 4;
    let rc = state.dispatch();
    if rc == ReturnCode::StreamEnd {
        assert!(n_in >= 4);
        let given = u32::from_be_bytes([input[0], input[1], input[2], input[3]]);
        // reference adler over the two bytes
        let a0 = ck & 0xffff; let b0 = ck >> 16;
        let a1 = (a0 + o[0] as u32) % 65521; let b1 = (b0 + a1) % 65521;
        let a2 = (a1 + o[1] as u32) % 65521; let b2 = (b1 + a2) % 65521;
        if wrap & 4 != 0 { assert!(given == (b2 << 16 | a2)); }
    }
    kani::cover!(rc == ReturnCode::StreamEnd && wrap == 5);
    kani::cover!(rc == ReturnCode::DataError);
    core::mem::forget(state);
}

// ---- single mode: Name (gzip header), capture + hcrc
#[kani::proof]
#[kani::unwind(12)]
#[kani::stub(crate::inflate::inftrees::inflate_table, stub_table)]
#[kani::stub(core::fmt::write, stub_fmt_write)]
#[kani::stub(core::panicking::panic_nounwind, stub_pn)]
#[kani::stub(core::panicking::panic_nounwind_fmt, stub_pnf)]
#[kani::stub(crate::crc32::crc32, stub_crc)]
fn mode_name() {
    const NI: usize = 6;
    let input: [u8; NI] = kani::any();
    let n_in: usize = kani::any();
    kani::assume(n_in <= NI);
    let mut name = [0xAAu8; 6];
    let name_max: u32 = kani::any();
    kani::assume(name_max <= 4);
    let mut head = gz_header::default();
    head.name = name.as_mut_ptr(); head.name_max = name_max;
    let mut out = [0u8; 4];
    let mut win = [0u8; 64 + 64];
    let mut state = State::new(&[], Writer::new(&mut []));
    state.window = unsafe { Window::from_raw_parts(win.as_mut_ptr(), win.len()) };
    state.wrap = 2 | 4; state.wbits = 15; state.mode = Mode::Name; state.dmax = 32768;
    let hcrc: bool = kani::any();
    state.gzip_flags = 0x0808 | if hcrc { 0x0200 } else { 0 };
    let already: usize = kani::any();
    kani::assume(already <= name_max as usize);
    state.length = already;
    state.head = Some(unsafe { &mut *(&mut head as *mut gz_header) });
    state.flush = InflateFlush::Block;
    unsafe { state.bit_reader.update_slice(input.as_ptr(), n_in) };
    state.in_available = n_in;
    state.writer = unsafe { Writer::new_uninit(out.as_mut_ptr(), 4) };
    let rc = state.dispatch();
    assert!(matches!(rc, ReturnCode::Ok | ReturnCode::DataError));
    let consumed = state.bit_reader.as_ptr() as usize - input.as_ptr() as usize;
    assert!(consumed <= n_in);
    let len_after = state.length;
    let mode_name_still = matches!(state.mode, Mode::Name);
    core::mem::forget(state);
    assert!(name[4] == 0xAA && name[5] == 0xAA);
    let mut i = 0; while i < 4 { if i as u32 >= name_max { assert!(name[i] == 0xAA); } i += 1; }
    if mode_name_still { assert!(consumed == n_in && len_after <= name_max as usize); }
    kani::cover!(!mode_name_still && consumed == 3);
}

fn stub_crc(_s: u32, _b: &[u8]) -> u32 { kani::any() }

// ---- one symbol through len_and_friends with the fixed tables
#[kani::proof]
#[kani::unwind(12)]
#[kani::stub(crate::inflate::inftrees::inflate_table, stub_table)]
#[kani::stub(core::fmt::write, stub_fmt_write)]
#[kani::stub(core::panicking::panic_nounwind, stub_pn)]
#[kani::stub(core::panicking::panic_nounwind_fmt, stub_pnf)]
#[kani::stub(crate::inflate::inflate_fast_help, stub_fast)]
fn len_one_symbol() {
    const NI: usize = 2;
    let input: [u8; NI] = kani::any();
    let n_in: usize = NI;
    let mut out = [0u8; 12];
    let pre: usize = kani::any();      // bytes already written in this call
    kani::assume(pre <= 4);
    let n_out: usize = kani::any();
    kani::assume(n_out >= pre && n_out <= 8);
    let mut win = [0u8; 16 + 64];
    let mut state = State::new(&[], Writer::new(&mut []));
    state.window = unsafe { Window::from_raw_parts(win.as_mut_ptr(), win.len()) };
    state.wrap = 0; state.wbits = 15; state.mode = Mode::Len; state.dmax = 32768;
    state.len_table = Table { codes: Codes::Fixed, bits: 9 };
    state.dist_table = Table { codes: Codes::Fixed, bits: 5 };
    unsafe { state.bit_reader.update_slice(input.as_ptr(), n_in) };
    state.writer = unsafe { Writer::new_uninit_raw(out.as_mut_ptr(), pre, n_out) };
    state.flush = InflateFlush::NoFlush;
    // run until the writer holds at most pre+3 bytes more or input is exhausted: a single call
    let r = state.len_and_friends();
    let consumed = state.bit_reader.as_ptr() as usize - input.as_ptr() as usize;
    assert!(consumed <= n_in);
    assert!(state.writer.len() <= n_out && state.writer.len() >= pre);
    kani::cover!(matches!(state.mode, Mode::Type));
    kani::cover!(matches!(state.mode, Mode::Match));
    let _ = r;
    core::mem::forget(state);
    assert!(out[8] == 0 && out[9] == 0 && out[10] == 0 && out[11] == 0);
}

// ---- inflate() prologue/epilogue on a typed stream in a terminal/suspended mode
#[kani::proof]
#[kani::unwind(8)]
#[kani::stub(crate::inflate::inftrees::inflate_table, stub_table)]
#[kani::stub(core::fmt::write, stub_fmt_write)]
#[kani::stub(core::panicking::panic_nounwind, stub_pn)]
#[kani::stub(core::panicking::panic_nounwind_fmt, stub_pnf)]
#[kani::stub(crate::crc32::crc32, stub_crc)]
fn inflate_epilogue() {
    let input: [u8; 4] = kani::any();
    let mut out = [0u8; 4];
    let mut win = [0u8; 16 + 64];
    let mut state = State::new(&[], Writer::new(&mut []));
    state.window = unsafe { Window::from_raw_parts(win.as_mut_ptr(), win.len()) };
    state.wrap = 0; state.wbits = 15; state.dmax = 32768; state.gzip_flags = -1;
    // stored-block copy in progress
    state.mode = Mode::CopyBlock;
    let remaining: usize = kani::any();
    kani::assume(remaining <= 6);
    state.length = remaining;
    let total0: usize = kani::any();
    kani::assume(total0 <= 1000);
    state.total = total0;
    let n_in: u32 = kani::any(); kani::assume(n_in <= 4);
    let n_out: u32 = kani::any(); kani::assume(n_out <= 4);
    let fl: u8 = kani::any();
    let flush = match fl % 5 { 0 => InflateFlush::NoFlush, 1 => InflateFlush::SyncFlush, 2 => InflateFlush::Finish, 3 => InflateFlush::Block, _ => InflateFlush::Trees };
    let mut strm = InflateStream {
        next_in: input.as_ptr() as *mut u8, avail_in: n_in, total_in: 7,
        next_out: out.as_mut_ptr(), avail_out: n_out, total_out: total0 as _,
        msg: core::ptr::null_mut(), state: &mut state,
        alloc: Allocator { zalloc: za, zfree: zf, opaque: core::ptr::null_mut(), _marker: PhantomData },
        data_type: 0, adler: 0, reserved: 0,
    };
    let rc = unsafe { inflate(&mut strm, flush) };
    let consumed = n_in - strm.avail_in;
    let produced = n_out - strm.avail_out;
    assert!(strm.avail_in <= n_in && strm.avail_out <= n_out);
    assert!(consumed == produced);                       // stored copy moves bytes 1:1
    assert!(strm.total_in == 7 + consumed as crate::c_api::z_size);
    assert!(strm.total_out == (total0 + produced as usize) as crate::c_api::z_size);
    assert!(strm.next_in as usize == input.as_ptr() as usize + consumed as usize);
    assert!(strm.next_out as usize == out.as_ptr() as usize + produced as usize);
    let mut i = 0; while i < 4 { if (i as u32) < produced { assert!(out[i] == input[i]); } i += 1; }
    if rc == ReturnCode::BufError { assert!(consumed == 0 && produced == 0 || flush == InflateFlush::Finish); }
    kani::cover!(rc == ReturnCode::BufError && consumed == 0);
    kani::cover!(rc == ReturnCode::Ok && produced == 3);
    core::mem::forget(strm);
}

unsafe fn stub_fast(_s: &mut State, _start: usize) { panic!("fast path reached") }

// ---- KI2 small: copy_match N=8 vs N=32, canaries, LZ77 semantics
#[kani::proof]
#[kani::unwind(40)]
#[kani::stub(core::fmt::write, stub_fmt_write)]
#[kani::stub(core::panicking::panic_nounwind, stub_pn)]
#[kani::stub(core::panicking::panic_nounwind_fmt, stub_pnf)]
fn copy_match_twin() {
    const CAP: usize = 24; const PADL: usize = 4; const TOT: usize = CAP + 2 * PADL;
    let init: [u8; TOT] = kani::any();
    let mut a = init; let mut b = init;
    let cap: usize = kani::any(); kani::assume(cap <= CAP);
    let filled: usize = kani::any(); let off: usize = kani::any(); let len: usize = kani::any();
    kani::assume(filled <= cap && off >= 1 && off <= filled && len <= cap - filled && len <= 8);
    let mut wa = unsafe { Writer::new_uninit_raw(a.as_mut_ptr().add(PADL), filled, cap) };
    wa.copy_match_with_features::<{ crate::cpu_features::CpuFeatures::NONE }>(off, len);
    let mut wb = unsafe { Writer::new_uninit_raw(b.as_mut_ptr().add(PADL), filled, cap) };
    wb.copy_match_with_features::<{ crate::cpu_features::CpuFeatures::AVX2 }>(off, len);
    assert!(wa.len() == filled + len && wb.len() == filled + len);
    core::mem::forget(wa); core::mem::forget(wb);
    let mut i = 0;
    while i < TOT {
        if i < PADL || i >= PADL + cap { assert!(a[i] == init[i] && b[i] == init[i]); }       // canaries + beyond capacity
        else if i < PADL + filled { assert!(a[i] == init[i] && b[i] == init[i]); }            // history untouched
        else if i < PADL + filled + len { assert!(a[i] == a[i - off] && b[i] == a[i]); }       // LZ77 semantics, width-independent
        i += 1;
    }
    kani::cover!(len > off && off > 1);
    kani::cover!(len == 8 && cap == CAP && filled == 3);
}

// ---- KI1 BitReader split invariance + bounds
#[kani::proof]
#[kani::unwind(12)]
#[kani::stub(core::fmt::write, stub_fmt_write)]
#[kani::stub(core::panicking::panic_nounwind, stub_pn)]
#[kani::stub(core::panicking::panic_nounwind_fmt, stub_pnf)]
fn bitreader_split() {
    let data: [u8; 6] = kani::any();
    let cut: usize = kani::any(); kani::assume(cut <= 6);
    let need: usize = kani::any(); kani::assume(need <= 32);
    // one slice
    let mut r1 = BitReader::new(&data);
    let ok1 = r1.need_bits(need).is_ok();
    // two slices
    let mut r2 = BitReader::new(&data[..cut]);
    let mut ok2 = r2.need_bits(need).is_ok();
    if !ok2 {
        let used = r2.as_ptr() as usize - data.as_ptr() as usize;
        assert!(used == cut);
        unsafe { r2.update_slice(data.as_ptr().add(cut), 6 - cut) };
        ok2 = r2.need_bits(need).is_ok();
    }
    assert!(ok1 == ok2);
    if ok1 {
        assert!(r1.bits(need) == r2.bits(need));
        assert!(r1.bits_in_buffer() == r2.bits_in_buffer());
        assert!(r1.as_ptr() == r2.as_ptr());
    }
    assert!(r1.as_ptr() as usize <= data.as_ptr() as usize + 6);
    kani::cover!(ok1 && need == 32 && cut == 2);
}

// ---- single step from Mode::Dist (dispatch copy), fixed tables, bits pre-primed, no further input
#[kani::proof]
#[kani::unwind(14)]
#[kani::stub(crate::inflate::inftrees::inflate_table, stub_table)]
#[kani::stub(core::fmt::write, stub_fmt_write)]
#[kani::stub(core::panicking::panic_nounwind, stub_pn)]
#[kani::stub(core::panicking::panic_nounwind_fmt, stub_pnf)]
#[kani::stub(crate::inflate::inflate_fast_help, stub_fast)]
fn mode_dist_step() {
    let mut out = [0u8; 16];
    let pre: usize = kani::any(); kani::assume(pre <= 6);
    let n_out: usize = kani::any(); kani::assume(n_out >= pre && n_out <= 12);
    let mut win = [0u8; 16 + 64];
    let mut state = State::new(&[], Writer::new(&mut []));
    state.window = unsafe { Window::from_raw_parts(win.as_mut_ptr(), win.len()) };
    let have: usize = kani::any(); let next: usize = kani::any();
    kani::assume(have <= 16 && next < 16 && (have == 16 || next == have % 16));
    unsafe { state.window.set_have(have) };
    // (window.next is private to window.rs; leave 0 unless have==16 — reduced pre-state)
    state.wrap = 0; state.wbits = 15; state.mode = Mode::Dist; state.dmax = 32768;
    state.len_table = Table { codes: Codes::Fixed, bits: 9 };
    state.dist_table = Table { codes: Codes::Fixed, bits: 5 };
    let len: usize = kani::any(); kani::assume(len >= 3 && len <= 258);
    state.length = len; state.was = len;
    let nb: u8 = kani::any(); kani::assume(nb <= 18);
    let v: u64 = kani::any();
    state.bit_reader.prime(nb, v);
    state.writer = unsafe { Writer::new_uninit_raw(out.as_mut_ptr(), pre, n_out) };
    state.flush = InflateFlush::NoFlush;
    let rc = state.dispatch();
    assert!(matches!(rc, ReturnCode::Ok | ReturnCode::DataError));
    assert!(state.writer.len() <= n_out && state.writer.len() >= pre);
    kani::cover!(matches!(state.mode, Mode::Match) && state.writer.len() == n_out);
    kani::cover!(matches!(state.mode, Mode::Bad));
    core::mem::forget(state);
    assert!(out[12] == 0 && out[13] == 0 && out[14] == 0 && out[15] == 0);
}

// ---- single step from Mode::Match, no bits/no input: Match(+) -> Len -> suspend
#[kani::proof]
#[kani::unwind(14)]
#[kani::stub(crate::inflate::inftrees::inflate_table, stub_table)]
#[kani::stub(core::fmt::write, stub_fmt_write)]
#[kani::stub(core::panicking::panic_nounwind, stub_pn)]
#[kani::stub(core::panicking::panic_nounwind_fmt, stub_pnf)]
#[kani::stub(crate::inflate::inflate_fast_help, stub_fast)]
fn mode_match_step() {
    const CAP: usize = 12;
    let init: [u8; CAP + 4] = kani::any();
    let mut out = init;
    let pre: usize = kani::any(); kani::assume(pre <= 6);
    let n_out: usize = kani::any(); kani::assume(n_out >= pre && n_out <= CAP);
    let wcontent: [u8; 8] = kani::any();
    let mut win = [0u8; 8 + 64];
    let mut k = 0; while k < 8 { win[k] = wcontent[k]; k += 1; }
    let mut state = State::new(&[], Writer::new(&mut []));
    state.window = unsafe { Window::from_raw_parts(win.as_mut_ptr(), win.len()) };
    let have: usize = kani::any(); kani::assume(have <= 8);
    unsafe { state.window.set_have(have) };   // next stays 0: "just wrapped" or empty window
    state.wrap = 0; state.wbits = 15; state.mode = Mode::Match; state.dmax = 32768;
    state.len_table = Table { codes: Codes::Fixed, bits: 9 };
    state.dist_table = Table { codes: Codes::Fixed, bits: 5 };
    let len: usize = kani::any(); kani::assume(len >= 1 && len <= 258);
    let off: usize = kani::any(); kani::assume(off >= 1 && off <= 32768);
    state.length = len; state.was = len; state.offset = off;
    state.writer = unsafe { Writer::new_uninit_raw(out.as_mut_ptr(), pre, n_out) };
    state.flush = InflateFlush::NoFlush;
    let rc = state.dispatch();
    let filled = state.writer.len();
    let bad = matches!(state.mode, Mode::Bad);
    let rest = state.length;
    core::mem::forget(state);
    assert!(matches!(rc, ReturnCode::Ok | ReturnCode::DataError));
    // rejection exactly when the distance reaches before everything we have
    assert!(bad == (off > pre + have));
    if !bad {
        assert!(filled - pre + rest == len);
        assert!(filled == n_out || rest == 0);
        let mut i = 0;
        while i < CAP + 4 {
            if i < pre || i >= n_out { assert!(out[i] == init[i]); }
            else if i < filled {
                // source: output itself or window tail (next == 0 => tail is win[have-d ..] when have==8, else win[..have])
                if off <= i { assert!(out[i] == out[i - off]); }
                else if have == 8 { let d = off - i; assert!(out[i] == wcontent[8 - d]); }
            }
            i += 1;
        }
    } else { assert!(rc == ReturnCode::DataError && filled == pre); }
    kani::cover!(!bad && off > pre && rest == 0);
    kani::cover!(bad);
}

// ---- inflateBack, concrete 20-bit prefix (final fixed block, literal 'a', length 3, dist code 11xxx), symbolic distance
#[kani::proof]
#[kani::unwind(8)]
#[kani::stub(crate::inflate::inftrees::inflate_table, stub_table)]
#[kani::stub(core::fmt::write, stub_fmt_write)]
#[kani::stub(core::panicking::panic_nounwind, stub_pn)]
#[kani::stub(core::panicking::panic_nounwind_fmt, stub_pnf)]
fn infback_dist() {
    // bits (LSB first): 1 | 01 | rev8(0x91) | rev7(1) | 11 ...
    // 0x91 = 1001_0001 -> MSB-first emission means stream bits 1,0,0,1,0,0,0,1
    // byte0 = bits0..7  : 1,1,0, 1,0,0,1,0  -> 0b0100_1011 = 0x4b
    // byte1 = bits8..15 : 0,0,1, 0,0,0,0,0  -> 0b0000_0100 = 0x04   (literal tail 0,0,1 then code 257 = 0000001 -> 0,0,0,0,0 ...)
    // byte2 = bits16..23: 0,1 (end of 0000001), 1,1 (dist code msb), s0..s3
    let s: u8 = kani::any();
    let b2: u8 = 0b0000_1110 | (s << 4);
    let b3: u8 = kani::any();
    let b4: u8 = kani::any();
    let input: [u8; 5] = [0x4b, 0x04, b2, b3, b4];
    let mut win = [0u8; 256];
    let mut state = State::new(&[], Writer::new(&mut []));
    state.window = unsafe { Window::from_raw_parts(win.as_mut_ptr(), 256) };
    state.wbits = 8;
    state.flags.update(Flags::SANE, true);
    let mut desc = InDesc { ptr: input.as_ptr(), len: 5, given: false };
    let mut strm = InflateStream {
        next_in: core::ptr::null_mut(), avail_in: 0, total_in: 0,
        next_out: core::ptr::null_mut(), avail_out: 0, total_out: 0,
        msg: core::ptr::null_mut(), state: &mut state,
        alloc: Allocator { zalloc: za, zfree: zf, opaque: core::ptr::null_mut(), _marker: PhantomData },
        data_type: 0, adler: 0, reserved: 0,
    };
    let rc = unsafe { back(&mut strm, in_cb, &mut desc as *mut _ as *mut core::ffi::c_void, out_cb, core::ptr::null_mut()) };
    assert!(matches!(rc, ReturnCode::StreamEnd | ReturnCode::DataError | ReturnCode::BufError));
    core::mem::forget(strm);
}

// ---- inflateBack: 8 concrete prefix bytes (final fixed block, six 9-bit literals, length-3 code), 2 symbolic bytes = distance
#[kani::proof]
#[kani::unwind(12)]
#[kani::stub(crate::inflate::inftrees::inflate_table, stub_table)]
#[kani::stub(core::fmt::write, stub_fmt_write)]
#[kani::stub(core::panicking::panic_nounwind, stub_pn)]
#[kani::stub(core::panicking::panic_nounwind_fmt, stub_pnf)]
#[kani::stub(crate::inflate::infback::inflate_fast_back, stub_fast_back)]
fn infback_prefix() {
    let s0: u8 = kani::any();
    let s1: u8 = kani::any();
    let input: [u8; 10] = [0x9b, 0x30, 0x61, 0xc2, 0x84, 0x9, 0x13, 0x80, s0, s1];
    let mut win = [0u8; 256];
    let mut state = State::new(&[], Writer::new(&mut []));
    state.window = unsafe { Window::from_raw_parts(win.as_mut_ptr(), 256) };
    state.wbits = 8;
    state.flags.update(Flags::SANE, true);
    let mut desc = InDesc { ptr: input.as_ptr(), len: 10, given: false };
    let mut strm = InflateStream {
        next_in: core::ptr::null_mut(), avail_in: 0, total_in: 0,
        next_out: core::ptr::null_mut(), avail_out: 0, total_out: 0,
        msg: core::ptr::null_mut(), state: &mut state,
        alloc: Allocator { zalloc: za, zfree: zf, opaque: core::ptr::null_mut(), _marker: PhantomData },
        data_type: 0, adler: 0, reserved: 0,
    };
    let rc = unsafe { back(&mut strm, in_cb, &mut desc as *mut _ as *mut core::ffi::c_void, out_cb, core::ptr::null_mut()) };
    assert!(matches!(rc, ReturnCode::StreamEnd | ReturnCode::DataError | ReturnCode::BufError));
    core::mem::forget(strm);
}

unsafe fn stub_fast_back(_s: &mut State) { panic!("inflate_fast_back reached") }
