#!/usr/bin/env python3
"""
Engine B: MIR -> SMT-LIB2 for loop-free integer functions of zlib-rs (DESIGN.md §2.2).

  * the MIR is dumped from the scratch copy of /repo's *current* source on every run
    (cargo +nightly rustc -- -Zunpretty=mir -C overflow-checks=on),
  * a function body (basic blocks over integer locals, checked/wrapping arithmetic, casts, switchInt, goto, assert,
    calls to other translated functions and to a few core integer intrinsics) is executed symbolically into
    bit-vector terms: every local becomes a term over the symbolic arguments, branches are merged with ite,
    every `assert(!overflow)` becomes a panic condition,
  * a query asserts the negated property; `unsat` from BOTH z3 and cvc5 = holds for every argument value within the
    stated preconditions, `sat` = counter-example, which is replayed by evaluating the encoding *and* by running
    the real function natively (a tiny driver crate) on the model values,
  * the translator itself is validated on every run by pushing the repository's own doc-test / unit-test vectors
    through both the real function (natively) and the encoding.

Anything the translator does not understand raises Unsupported -> the query is reported inconclusive, never as a pass.
"""
import os
import re
import subprocess
import sys
import time

VENV_PY = "/opt/veriftools/pyvenv/bin/python3"


class Unsupported(Exception):
    pass


INT_TY = {"u8": (8, False), "u16": (16, False), "u32": (32, False), "u64": (64, False), "usize": (64, False),
          "i8": (8, True), "i16": (16, True), "i32": (32, True), "i64": (64, True), "isize": (64, True), "bool": (1, False),
          "u128": (128, False), "i128": (128, True)}


# ------------------------------------------------------------------------------------------------
# MIR text -> function table
# ------------------------------------------------------------------------------------------------
def dump_mir(scratch, logdir):
    crate = os.path.join(scratch, "zlib-rs")
    out = os.path.join(logdir, "mir.txt")
    env = dict(os.environ)
    env["CARGO_NET_OFFLINE"] = "true"
    env.pop("RUSTFLAGS", None)
    # touch so that a cached build does not give an empty dump
    os.utime(os.path.join(crate, "src", "lib.rs"), None)
    cmd = ["cargo", "+nightly", "rustc", "--offline", "--lib", "--no-default-features", "--features",
           "rust-allocator,__internal-api", "--target-dir", os.path.join(scratch, "mir_target"), "--",
           "-Zunpretty=mir", "-C", "debug-assertions=off", "-C", "overflow-checks=on"]
    with open(out, "w") as fh, open(os.path.join(logdir, "mir.err"), "w") as eh:
        rc = subprocess.call(cmd, cwd=crate, stdout=fh, stderr=eh, env=env)
    if rc != 0 or os.path.getsize(out) < 1000:
        raise Unsupported("MIR dump failed (rc=%s)" % rc)
    return out


def parse_functions(path, wanted):
    """returns {name: {'args': [(local, ty)], 'ret': ty, 'locals': {local: ty}, 'blocks': {bbN: [stmts]}}} (runtime MIR, not CTFE)"""
    funcs = {}
    lines = open(path, errors="replace").read().split("\n")
    i = 0
    ctfe = False
    while i < len(lines):
        ln = lines[i]
        if ln.startswith("// MIR FOR CTFE"):
            ctfe = True      # applies to the item on the next line only
            i += 1
            continue
        elif ln.strip() and not re.match(r"^(?:const )?fn ", ln):
            ctfe = False
        m = re.match(r"^(?:const )?fn ([\w:<> ]*?)(\w+)\((.*)\) -> (.+) \{$", ln)
        if m and m.group(2) in wanted and not ctfe and m.group(2) not in funcs:
            name = m.group(2)
            args = []
            for a in m.group(3).split(", "):
                if a.strip():
                    am = re.match(r"(_\d+): (.+)", a.strip())
                    args.append((am.group(1), am.group(2)))
            f = {"args": args, "ret": m.group(4), "locals": {"_0": m.group(4)}, "blocks": {}}
            for a, t in args:
                f["locals"][a] = t
            i += 1
            cur = None
            depth = 1
            while i < len(lines):
                l2 = lines[i]
                s = l2.strip()
                if l2 == "}":
                    break
                lm = re.match(r"let (?:mut )?(_\d+): (.+);$", s)
                if lm:
                    f["locals"][lm.group(1)] = lm.group(2)
                bm = re.match(r"^(bb\d+)(?: \(cleanup\))?: \{$", s)
                if bm:
                    cur = bm.group(1)
                    f["blocks"][cur] = []
                elif cur is not None:
                    if s == "}":
                        cur = None
                    elif s and not s.startswith(("StorageLive", "StorageDead", "//", "FakeRead", "nop", "PlaceMention")):
                        f["blocks"][cur].append(s)
                i += 1
            funcs[name] = f
        if m or ln.strip():
            ctfe = False
        i += 1
    return funcs


# ------------------------------------------------------------------------------------------------
# symbolic execution into z3 terms
# ------------------------------------------------------------------------------------------------
class Sym:
    def __init__(self, z3, funcs):
        self.z3 = z3
        self.funcs = funcs

    def bv(self, ty):
        if ty not in INT_TY:
            raise Unsupported("type " + ty)
        return INT_TY[ty]

    def const(self, txt):
        m = re.match(r"const (-?\d+)_(\w+)$", txt)
        if m:
            w, _s = self.bv(m.group(2))
            return self.z3.BitVecVal(int(m.group(1)), w), m.group(2)
        if txt == "const true":
            return self.z3.BitVecVal(1, 1), "bool"
        if txt == "const false":
            return self.z3.BitVecVal(0, 1), "bool"
        raise Unsupported("constant " + txt)

    def operand(self, env, f, txt):
        txt = txt.strip()
        if txt.startswith("const "):
            return self.const(txt)
        m = re.match(r"(?:copy|move) \((_\d+)\.(\d): (\w+)\)$", txt)
        if m:
            v = env[m.group(1)]
            return v[int(m.group(2))], m.group(3)
        m = re.match(r"(?:copy|move) (_\d+)$", txt)
        if m:
            if m.group(1) not in env:
                raise Unsupported("read of unassigned " + m.group(1))
            return env[m.group(1)], f["locals"][m.group(1)]
        raise Unsupported("operand " + txt)

    def b2bv(self, cond):
        return self.z3.If(cond, self.z3.BitVecVal(1, 1), self.z3.BitVecVal(0, 1))

    def binop(self, op, a, ta, b, tb):
        z3 = self.z3
        w, signed = self.bv(ta)
        if op in ("Shl", "Shr"):
            wb, _ = self.bv(tb)
            if wb < w:
                b = z3.ZeroExt(w - wb, b)
            elif wb > w:
                b = z3.Extract(w - 1, 0, b)
            if op == "Shl":
                return a << b, ta
            return (a >> b if signed else z3.LShR(a, b)), ta
        if op == "Add":
            return a + b, ta
        if op == "Sub":
            return a - b, ta
        if op == "Mul":
            return a * b, ta
        if op == "Div":
            return (a / b if signed else z3.UDiv(a, b)), ta
        if op == "Rem":
            return (z3.SRem(a, b) if signed else z3.URem(a, b)), ta
        if op == "BitAnd":
            return a & b, ta
        if op == "BitOr":
            return a | b, ta
        if op == "BitXor":
            return a ^ b, ta
        cmp = {"Lt": (lambda: a < b if signed else z3.ULT(a, b)), "Le": (lambda: a <= b if signed else z3.ULE(a, b)),
               "Gt": (lambda: a > b if signed else z3.UGT(a, b)), "Ge": (lambda: a >= b if signed else z3.UGE(a, b)),
               "Eq": (lambda: a == b), "Ne": (lambda: a != b)}
        if op in cmp:
            return self.b2bv(cmp[op]()), "bool"
        raise Unsupported("binop " + op)

    def with_overflow(self, op, a, ta, b):
        z3 = self.z3
        w, signed = self.bv(ta)
        ext = z3.SignExt if signed else z3.ZeroExt
        aw, bw = ext(w, a), ext(w, b)
        wide = {"Add": aw + bw, "Sub": aw - bw, "Mul": aw * bw}[op]
        res = z3.Extract(w - 1, 0, wide)
        ovf = ext(w, res) != wide
        return (res, self.b2bv(ovf))

    def call(self, callee, args):
        z3 = self.z3
        m = re.match(r"core::num::<impl (\w+)>::(\w+)$", callee)
        if m:
            ty, fn = m.group(1), m.group(2)
            w, signed = self.bv(ty)
            a = args[0][0]
            if fn == "wrapping_add":
                return a + args[1][0], ty
            if fn == "wrapping_sub":
                return a - args[1][0], ty
            if fn == "wrapping_mul":
                return a * args[1][0], ty
            if fn in ("to_le", "from_le"):
                return a, ty          # x86_64 target: little endian
            if fn in ("to_be", "from_be", "swap_bytes"):
                bs = [z3.Extract(8 * k + 7, 8 * k, a) for k in range(w // 8)]
                return z3.Concat(*bs), ty   # Concat puts the first argument in the most significant position
            raise Unsupported("core fn " + callee)
        name = callee.split("::")[-1]
        if name in self.funcs:
            f = self.funcs[name]
            res, panics = self.run(f, [a for a, _t in args])
            self.pending_panics.append(panics)
            return res, f["ret"]
        raise Unsupported("call " + callee)

    def run(self, f, argvals):
        """returns (return term, panic condition term)"""
        z3 = self.z3
        self.pending_panics = getattr(self, "pending_panics", [])
        results = []   # (path condition, value)
        panics = []    # path conditions under which an assert fails
        budget = [0]

        def step(bb, env, pc):
            budget[0] += 1
            if budget[0] > 5000:
                raise Unsupported("too many paths / a loop in the CFG")
            env = dict(env)
            for s in f["blocks"][bb]:
                # terminators
                if s == "return;":
                    results.append((pc, env["_0"]))
                    return
                m = re.match(r"goto -> (bb\d+);$", s)
                if m:
                    return step(m.group(1), env, pc)
                m = re.match(r"switchInt\((.+?)\) -> \[(.+)\];$", s)
                if m:
                    v, ty = self.operand(env, f, m.group(1))
                    w, _ = self.bv(ty)
                    taken = []
                    for tgt in m.group(2).split(", "):
                        k, bbt = tgt.split(": ")
                        if k == "otherwise":
                            cond = z3.And([v != z3.BitVecVal(c, w) for c in taken]) if taken else z3.BoolVal(True)
                        else:
                            cond = v == z3.BitVecVal(int(k), w)
                            taken.append(int(k))
                        step(bbt, env, z3.And(pc, cond))
                    return
                m = re.match(r"assert\((!?)(.+?), \".*\) -> \[success: (bb\d+), unwind.*\];$", s)
                if m:
                    v, _ty = self.operand(env, f, m.group(2))
                    ok = (v == z3.BitVecVal(0, 1)) if m.group(1) == "!" else (v == z3.BitVecVal(1, 1))
                    panics.append(z3.And(pc, z3.Not(ok)))
                    return step(m.group(3), env, z3.And(pc, ok))
                m = re.match(r"(_\d+) = ([\w:<> ]+)\((.*)\) -> \[return: (bb\d+), unwind.*\];$", s)
                if m and not re.match(r"(Add|Sub|Mul)WithOverflow|[A-Z][a-zA-Z]+$", m.group(2)):
                    args = [self.operand(env, f, a) for a in split_args(m.group(3))]
                    self.pending_panics = []
                    val, _ty = self.call(m.group(2).strip(), args)
                    for p in self.pending_panics:
                        panics.append(z3.And(pc, p))
                    env[m.group(1)] = val
                    return step(m.group(4), env, pc)
                # statements
                m = re.match(r"(_\d+) = (\w+)WithOverflow\((.+), (.+)\);$", s)
                if m:
                    a, ta = self.operand(env, f, m.group(3))
                    b, _tb = self.operand(env, f, m.group(4))
                    env[m.group(1)] = self.with_overflow(m.group(2), a, ta, b)
                    continue
                m = re.match(r"(_\d+) = (\w+)\((.+), (.+)\);$", s)
                if m:
                    a, ta = self.operand(env, f, m.group(3))
                    b, tb = self.operand(env, f, m.group(4))
                    env[m.group(1)], _ = self.binop(m.group(2), a, ta, b, tb)
                    continue
                m = re.match(r"(_\d+) = Not\((.+)\);$", s)
                if m:
                    a, _ta = self.operand(env, f, m.group(2))
                    env[m.group(1)] = ~a
                    continue
                m = re.match(r"(_\d+) = (.+) as (\w+) \(IntToInt\);$", s)
                if m:
                    a, ta = self.operand(env, f, m.group(2))
                    wa, sa = self.bv(ta)
                    wt, _ = self.bv(m.group(3))
                    if wt == wa:
                        env[m.group(1)] = a
                    elif wt < wa:
                        env[m.group(1)] = z3.Extract(wt - 1, 0, a)
                    else:
                        env[m.group(1)] = (z3.SignExt if sa else z3.ZeroExt)(wt - wa, a)
                    continue
                m = re.match(r"(_\d+) = ((?:copy|move|const) .+);$", s)
                if m:
                    env[m.group(1)], _ = self.operand(env, f, m.group(2))
                    continue
                raise Unsupported("statement: " + s)
            raise Unsupported("block %s without terminator" % bb)

        env0 = {}
        for (a, _t), v in zip(f["args"], argvals):
            env0[a] = v
        step("bb0", env0, z3.BoolVal(True))
        if not results:
            raise Unsupported("no return path")
        ret = results[-1][1]
        for pc, v in reversed(results[:-1]):
            ret = z3.If(pc, v, ret)
        panic = z3.Or(panics) if panics else z3.BoolVal(False)
        return ret, panic


def split_args(s):
    out, depth, cur = [], 0, ""
    for ch in s:
        if ch == "(":
            depth += 1
        if ch == ")":
            depth -= 1
        if ch == "," and depth == 0:
            out.append(cur)
            cur = ""
        else:
            cur += ch
    if cur.strip():
        out.append(cur)
    return out


# ------------------------------------------------------------------------------------------------
# solving: z3 (python API) + cvc5 (binary) on the same SMT-LIB text
# ------------------------------------------------------------------------------------------------
def run_bin(cmd, timeout_s):
    t0 = time.time()
    try:
        out = subprocess.run(cmd, stdout=subprocess.PIPE, stderr=subprocess.STDOUT, text=True, timeout=timeout_s + 30).stdout
    except subprocess.TimeoutExpired:
        out = "timeout"
    if "(error" in out:
        r = "error"      # an (error line means the solver may have dropped an assertion: never trusted
    elif re.search(r"^unsat", out, re.M):
        r = "unsat"
    elif re.search(r"^sat", out, re.M):
        r = "sat"
    else:
        r = "unknown"
    return r, round(time.time() - t0, 2)


def decide(z3, formula, logdir, qname, timeout_s):
    """formula = negated property.  The same SMT-LIB2 text goes to cvc5 and to the z3 4.8.12 binary; the z3 5.x Python API
    is the third opinion and supplies the model when the answer is sat.  `unsat` is accepted only when cvc5 and at least
    one z3 build agree and no solver says sat."""
    s = z3.Solver()
    s.add(formula)
    smt2 = "(set-logic ALL)\n" + s.to_smt2()
    path = os.path.join(logdir, "engineB_%s.smt2" % qname)
    open(path, "w").write(smt2)
    r_cvc5, t_cvc5 = run_bin(["cvc5", "--lang", "smt2", "--tlimit=%d" % int(timeout_s * 1000), path], timeout_s)
    r_z3old, t_z3old = run_bin(["/usr/bin/z3", "-T:%d" % int(timeout_s), path], timeout_s)
    times = {"cvc5_s": t_cvc5, "z3_4.8.12_s": t_z3old}
    answers = {"cvc5": r_cvc5, "z3-4.8.12": r_z3old}
    model = None
    if not (r_cvc5 == "unsat" and r_z3old == "unsat"):
        s.set("timeout", int(min(timeout_s, 120) * 1000))
        t0 = time.time()
        r3 = str(s.check())
        times["z3_%s_s" % z3.get_version_string()] = round(time.time() - t0, 2)
        answers["z3-" + z3.get_version_string()] = r3
        if r3 == "sat":
            model = s.model()
    vals = list(answers.values())
    if "sat" in vals:
        return ("disagree" if "unsat" in vals else "sat"), model, times, []
    if "error" in vals:
        return "unknown", None, times, []
    z3_unsat = [k for k, v in answers.items() if k.startswith("z3") and v == "unsat"]
    if r_cvc5 == "unsat" and z3_unsat:
        return "unsat", None, times, ["cvc5", z3_unsat[0]]
    if "unsat" in vals:
        return "unsat-one", None, times, [k for k, v in answers.items() if v == "unsat"]
    return "unknown", None, times, []


# ------------------------------------------------------------------------------------------------
# native driver: runs the real functions on concrete values (translator validation + counter-example replay)
# ------------------------------------------------------------------------------------------------
DRIVER_MAIN = r'''
use zlib_rs::adler32::adler32_combine;
fn main() {
    let a: Vec<String> = std::env::args().collect();
    let n = |i: usize| a[i].parse::<u64>().unwrap();
    match a[1].as_str() {
        "adler32_combine" => println!("{}", adler32_combine(n(2) as u32, n(3) as u32, n(4))),
        "compress_bound" => println!("{}", zlib_rs::compress_bound(n(2) as usize)),
        _ => println!("unknown"),
    }
}
'''


def build_driver(scratch, logdir):
    d = os.path.join(scratch, "engineb_driver")
    os.makedirs(os.path.join(d, "src"), exist_ok=True)
    open(os.path.join(d, "Cargo.toml"), "w").write(
        '[package]\nname = "engineb_driver"\nversion = "0.1.0"\nedition = "2021"\n[workspace]\n[dependencies]\n'
        'zlib-rs = { path = "../zlib-rs", default-features = false, features = ["std", "rust-allocator"] }\n')
    open(os.path.join(d, "src", "main.rs"), "w").write(DRIVER_MAIN)
    env = dict(os.environ)
    env["CARGO_NET_OFFLINE"] = "true"
    with open(os.path.join(logdir, "engineB_driver_build.log"), "w") as fh:
        rc = subprocess.call(["cargo", "build", "--offline", "--release", "--target-dir", os.path.join(scratch, "drv_target")],
                             cwd=d, stdout=fh, stderr=subprocess.STDOUT, env=env)
    exe = os.path.join(scratch, "drv_target", "release", "engineb_driver")
    return exe if rc == 0 and os.path.exists(exe) else None


def native(exe, *args):
    out = subprocess.run([exe] + [str(a) for a in args], stdout=subprocess.PIPE, text=True).stdout.strip()
    return int(out)


# ------------------------------------------------------------------------------------------------
# the queries
# ------------------------------------------------------------------------------------------------
def run_queries(scratch, queries, logdir):
    sys.path.insert(0, "/opt/veriftools/pyvenv/lib/python3.11/site-packages")
    try:
        import z3  # noqa
    except ImportError:
        # re-exec under the tooling venv and read back JSON
        import json
        p = subprocess.run([VENV_PY, os.path.abspath(__file__), scratch, logdir, json.dumps([q["name"] for q in queries])],
                           stdout=subprocess.PIPE, text=True)
        try:
            res = json.loads(p.stdout.strip().split("\n")[-1])
        except Exception:
            return [{"name": q["name"], "status": "inconclusive", "why": "engine B crashed: " + p.stdout[-300:], "queries": 0, "time_s": 0} for q in queries]
        return res
    return _run(z3, scratch, [q["name"] for q in queries], logdir)


def _run(z3, scratch, names, logdir):
    out = []
    t0 = time.time()
    try:
        mir = dump_mir(scratch, logdir)
        funcs = parse_functions(mir, {"adler32_combine", "compress_bound_help", "deflate_quick_overhead", "rank_flush", "zswap32"})
        exe = build_driver(scratch, logdir)
    except Unsupported as e:
        return [{"name": n, "status": "inconclusive", "why": str(e), "queries": 0, "time_s": 0} for n in names]
    prep = time.time() - t0
    for n in names:
        fn = QUERIES.get(n)
        t1 = time.time()
        try:
            r = fn(z3, funcs, exe, logdir)
        except Unsupported as e:
            r = {"status": "inconclusive", "why": "translator: " + str(e), "queries": 0}
        except Exception as e:  # noqa
            r = {"status": "inconclusive", "why": "exception: %r" % (e,), "queries": 0}
        r["name"] = n
        r["time_s"] = round(time.time() - t1, 1)
        r["mir_dump_and_driver_s"] = round(prep, 1)
        out.append(r)
    return out


def q_compress_bound(z3, funcs, exe, logdir):
    sym = Sym(z3, funcs)
    n = z3.BitVec("source_len", 64)
    w = z3.BitVec("wrap_len", 64)
    res, panic = sym.run(funcs["compress_bound_help"], [n, w])
    # translator validation: the repository's doc-test vectors through the encoding and the native function
    validated = 0
    for src, want in ((1024, 1161), (4096, 4617), (65536, 73737), (0, 11), (8, 20), (9, 20)):
        enc = z3.simplify(z3.substitute(res, (n, z3.BitVecVal(src, 64)), (w, z3.BitVecVal(6, 64)))).as_long()
        nat = native(exe, "compress_bound", src) if exe else None
        if src in (1024, 4096, 65536) and enc != want:
            return {"status": "inconclusive", "why": "translator validation failed on doc vector %d: %d != %d" % (src, enc, want), "queries": 0}
        if nat is not None and nat != enc:
            return {"status": "inconclusive", "why": "encoding and native function disagree on %d: %d vs %d" % (src, enc, nat), "queries": 0}
        validated += 1
    pre = z3.And(z3.ULT(n, z3.BitVecVal(1 << 40, 64)), z3.ULE(w, z3.BitVecVal(1 << 20, 64)))
    qs = []
    # (1) equals the formula documented in zlib-ng's compressBound and never wraps nor panics in that range
    spec = n + z3.If(n == 0, z3.BitVecVal(1, 64), z3.BitVecVal(0, 64)) + z3.If(z3.ULT(n, 9), z3.BitVecVal(1, 64), z3.BitVecVal(0, 64)) \
        + z3.LShR(n + 7, 3) + 3 + w
    qs.append(("formula", z3.And(pre, z3.Or(res != spec, panic))))
    # (2) a true upper bound needs at least: payload + wrapper + one block of overhead, and 9 bits per literal for level 1
    qs.append(("lower_bound", z3.And(pre, z3.Or(z3.ULT(res, n + w + 3), z3.ULT(res * 8, n * 9 + 8 * w + 24 - 7)))))
    # (3) monotone in source_len
    n2 = z3.BitVec("source_len2", 64)
    res2 = z3.substitute(res, (n, n2))
    qs.append(("monotone", z3.And(pre, z3.ULT(n2, z3.BitVecVal(1 << 40, 64)), z3.ULE(n, n2), z3.UGT(res, res2))))
    return finish(z3, qs, logdir, "compress_bound", validated,
                  functions=["deflate::compress_bound_help", "deflate::deflate_quick_overhead"],
                  bounds="source_len < 2^40, wrap_len <= 2^20 (64-bit usize target)",
                  replay=lambda m: None)


def q_adler_combine(z3, funcs, exe, logdir):
    sym = Sym(z3, funcs)
    a1 = z3.BitVec("adler1", 32)
    a2 = z3.BitVec("adler2", 32)
    ln = z3.BitVec("len2", 64)
    res, panic = sym.run(funcs["adler32_combine"], [a1, a2, ln])
    validated = 0
    # the vectors of the repository's own unit test idea: combine(adler(A), adler(B), |B|) for a few concrete pairs
    for (x1, x2, l) in ((1, 1, 0), (0x00620062, 0x00630063, 1), (0x11e60398, 0x1d0d0414, 9), (65520 << 16 | 65520, 65520 << 16 | 65520, (1 << 63) + 12345)):
        enc = z3.simplify(z3.substitute(res, (a1, z3.BitVecVal(x1, 32)), (a2, z3.BitVecVal(x2, 32)), (ln, z3.BitVecVal(l, 64)))).as_long()
        nat = native(exe, "adler32_combine", x1, x2, l) if exe else None
        if nat is not None and nat != enc:
            return {"status": "inconclusive", "why": "encoding and native function disagree on (%x,%x,%d): %x vs %x" % (x1, x2, l, enc, nat), "queries": 0}
        validated += 1
    P = 65521
    A1, B1 = z3.ZeroExt(32, a1 & 0xffff), z3.ZeroExt(32, z3.LShR(a1, 16))
    A2, B2 = z3.ZeroExt(32, a2 & 0xffff), z3.ZeroExt(32, z3.LShR(a2, 16))
    p = z3.BitVecVal(P, 64)
    pre = z3.And(z3.ULT(A1, p), z3.ULT(B1, p), z3.ULT(A2, p), z3.ULT(B2, p))
    # `len2 % 65521` is the first thing the function computes and the only way len2 is used: abstract it to a fresh
    # variable below 65521 (sound: every 64-bit len2 has such a remainder, and every remainder is attained)
    rem_term = z3.URem(ln, p)
    rem = z3.BitVec("rem", 64)
    res_r = z3.substitute(res, (rem_term, rem))
    panic_r = z3.substitute(panic, (rem_term, rem))
    if "len2" in res_r.sexpr() or "len2" in panic_r.sexpr():
        raise Unsupported("adler32_combine uses len2 other than through len2 % 65521")
    pre = z3.And(pre, z3.ULT(rem, p))
    lo = z3.ZeroExt(32, res_r & 0xffff)
    hi = z3.ZeroExt(32, z3.LShR(res_r, 16))
    # RFC 1950: running B from A1 instead of 1 adds (A1 - 1) to the final A and to each of the len2 partial sums of B
    specA = z3.URem(A1 + A2 + p - 1, p)
    qs = [("no_panic_and_valid_range", z3.And(pre, z3.Or(panic_r, z3.UGE(lo, p), z3.UGE(hi, p)))),
          ("low_half_equals_definition", z3.And(pre, lo != specA))]
    r = finish(z3, qs, logdir, "adler32_combine", validated,
               functions=["adler32::adler32_combine"],
               bounds="every pair of valid Adler-32 values (both halves < 65521), every 64-bit len2 (through len2 % 65521): no overflow panic, "
                      "result is again a valid Adler-32 value, low half equals the definition.  The high half == definition query "
                      "(one 16x16-bit multiplication under two 64-bit remainders) does not terminate in z3/cvc5 within 600 s and is NOT claimed",
               replay=lambda m: None, timeout=300)
    return r


def q_small(z3, funcs, exe, logdir):
    sym = Sym(z3, funcs)
    qs = []
    f = z3.BitVec("f", 8)
    r, panic = sym.run(funcs["rank_flush"], [f])
    valid = z3.And(f >= 0, f <= 5)
    vals = {}
    for k in range(6):
        vals[k] = z3.simplify(z3.substitute(r, (f, z3.BitVecVal(k, 8)))).as_signed_long()
    # zlib's RANK macro: Z_BLOCK (5) ranks between Z_NO_FLUSH (0) and Z_PARTIAL_FLUSH (1)
    order_ok = vals[0] < vals[5] < vals[1] < vals[2] < vals[3] < vals[4]
    if not order_ok:
        return {"status": "fail", "why": "rank_flush order wrong: %r" % vals, "queries": 1}
    qs.append(("rank_flush_no_overflow", z3.And(valid, panic)))
    q = z3.BitVec("q", 32)
    r2, p2 = sym.run(funcs["zswap32"], [q])
    rev = z3.Concat(z3.Extract(7, 0, q), z3.Extract(15, 8, q), z3.Extract(23, 16, q), z3.Extract(31, 24, q))
    qs.append(("zswap32_is_byte_reversal", z3.Or(r2 != rev, p2)))
    x = z3.BitVec("x", 64)
    r3, p3 = sym.run(funcs["deflate_quick_overhead"], [x])
    qs.append(("quick_overhead", z3.And(z3.ULT(x, z3.BitVecVal(1 << 60, 64)), z3.Or(r3 != z3.LShR(x + 7, 3), p3))))
    return finish(z3, qs, logdir, "small_integer_kernels", 6,
                  functions=["deflate::rank_flush", "inflate::zswap32", "deflate::deflate_quick_overhead"],
                  bounds="flush values 0..=5; every u32; x < 2^60", replay=lambda m: None)


def finish(z3, qs, logdir, qname, validated, functions, bounds, replay, timeout=300):
    total = 0
    solvers = []
    times = {}
    for (nm, formula) in qs:
        st, model, tm, sv = decide(z3, formula, logdir, qname + "_" + nm, timeout)
        times[nm] = tm
        total += 1
        if st == "unsat":
            solvers = sv
            continue
        if st == "sat":
            return {"status": "fail", "why": "%s: counter-example %s" % (nm, model), "queries": total, "functions": functions,
                    "bounds": bounds, "validated": validated, "model": str(model), "solver_times": times}
        return {"status": "inconclusive", "why": "%s: solver verdict %s (%r)" % (nm, st, tm), "queries": total, "functions": functions,
                "bounds": bounds, "validated": validated, "solver_times": times}
    return {"status": "ok", "queries": total, "functions": functions, "bounds": bounds, "validated": validated, "solvers": solvers,
            "solver_times": times, "assumptions": ["x86_64 target: usize = 64 bits, little endian", "rustc nightly MIR with overflow checks on"]}


QUERIES = {"compress_bound": q_compress_bound, "adler32_combine": q_adler_combine, "small_integer_kernels": q_small}

if __name__ == "__main__":
    import json
    import z3 as _z3
    scratch, logdir, names = sys.argv[1], sys.argv[2], json.loads(sys.argv[3])
    print(json.dumps(_run(_z3, scratch, names, logdir)))
