#!/usr/bin/env python3
"""Generates /verif/MANIFEST.json from harness/registry.py + the per-property texts in harness/claims.py."""
import json
import os
import sys

VERIF = os.path.dirname(os.path.dirname(os.path.abspath(__file__)))
sys.path.insert(0, os.path.join(VERIF, "harness"))
import registry  # noqa
import claims  # noqa

ALL = ["C%02d" % i for i in range(1, 21)]


def main():
    checks = []
    na = []
    for pid in ALL:
        hs = [n for n, s in registry.HARNESSES.items() if pid in s["props"]]
        eb = [q for q in registry.ENGINE_B if pid in q["props"]]
        c = claims.CLAIMS.get(pid)
        if c is None or (not hs and not eb) or c.get("na"):
            na.append({"property_id": pid, "reason": (c or {}).get("na", "no deciding kernel built (see DESIGN.md)")})
            continue
        checks.append({
            "property_id": pid,
            "quick_cmd": "./check %s --tier quick" % pid,
            "thorough_cmd": "./check %s --tier thorough" % pid,
            "evidence_file": "/verif/evidence/%s.json" % pid,
            "replay_cmd_template": "./check --replay {path}",
            "engine": "kani-cbmc" + ("+mir-smt" if eb else ""),
            "level_claimed": {
                "category": "model_checking",
                "text": c["text"],
                "design_ref": c.get("design_ref", "DESIGN.md §4 " + pid),
            },
            "level_note": c["note"],
            "technique": c.get("technique", "bounded model checking of the real code: Kani 0.68 / CBMC 6.11 (CaDiCaL) harnesses over "
                                            "kani::any() inputs compiled inside the crate, unwinding assertions on, cover witnesses against vacuity"
                               + ("; Engine B: MIR -> SMT-LIB translation decided by z3 and cvc5" if eb else "")),
        })
    m = {
        "version": 1,
        "setup_cmd": "./setup.sh",
        "hooks": {
            "guard": "cfg(kani) -- set only by kani-compiler; harness modules are injected into a scratch copy of /repo's working tree on "
                     "every run (add-only: `#[cfg(kani)] mod verif_kani;` appended to the parent module file). Nothing is committed to /repo.",
            "enable": "./check <id> rsyncs /repo/{Cargo.toml,Cargo.lock,zlib-rs,libz-rs-sys} to /var/tmp/zlibrs-verif.<id>.<pid>, copies "
                      "/verif/harness/tree/** into it and runs `cargo kani --no-default-features --features rust-allocator,__internal-api "
                      "-Z stubbing --harness <h>` there",
            "baseline_off_cmd": "cd /repo && cargo nextest run --workspace --no-fail-fast --tool-config-file pb:/w/lib/nextest.toml --profile pb "
                                "--test-threads 8 --offline",
            "source_commits": [],
            "add_only": True,
        },
        "engines": [
            {"name": "kani-cbmc", "path": "/verif/lib/runner.py + /verif/harness/tree/**",
             "serves_properties": [c["property_id"] for c in checks],
             "kind_free_text": "Engine A: #[kani::proof] harnesses compiled inside zlib-rs/libz-rs-sys (private kernels called directly), "
                               "decided by CBMC's SAT back end; counter-examples replayed natively with cargo kani playback before reporting"},
            {"name": "mir-smt", "path": "/verif/lib/engine_b.py",
             "serves_properties": sorted({p for q in registry.ENGINE_B for p in q["props"]}),
             "kind_free_text": "Engine B: nightly -Zunpretty=mir of loop-free integer functions translated to SMT-LIB2 bit-vectors, "
                               "decided by z3 and cvc5 (diffed); translator validated against the native function on the repo's own test vectors"},
        ],
        "checks": checks,
        "notes": claims.NOTES,
        "not_applicable": na,
    }
    with open(os.path.join(VERIF, "MANIFEST.json"), "w") as fh:
        json.dump(m, fh, indent=1)
    print("MANIFEST: %d checks, %d not applicable" % (len(checks), len(na)))


if __name__ == "__main__":
    main()
