#!/usr/bin/env python3
"""
Runner for the solver-based checks of zlib-rs (see /verif/DESIGN.md §2).

For one property id it
  1. copies /repo's *current working tree* (Cargo.toml, Cargo.lock, zlib-rs, libz-rs-sys) to a scratch
     directory outside /repo and /verif,
  2. injects the harness modules of /verif/harness/tree (add-only: `#[cfg(kani)] mod verif_kani;` appended
     to the parent module file, harness files copied next to it),
  3. runs every Kani harness registered for the property and tier (each in its own target dir, in parallel,
     under `timeout` and `ulimit -v`) and the Engine-B (MIR -> SMT-LIB) queries registered for it,
  4. parses the verdicts, replays counter-examples natively (cargo kani playback) before reporting them,
  5. writes /verif/evidence/<id>.json and removes the scratch directory.

Exit status: 0 = every obligation decided and held (known findings are printed as KNOWN-FINDING lines),
             1 = a counter-example was found *and reproduced natively*  (VIOLATION line printed),
             2 = inconclusive (timeout, out of memory, harness does not compile against the edited tree,
                 vacuous witness, counter-example that does not replay).
"""
import json
import os
import re
import shutil
import signal
import subprocess
import sys
import threading
import time

VERIF = os.path.dirname(os.path.dirname(os.path.abspath(__file__)))
REPO = os.environ.get("VERIF_REPO", "/repo")
TREE = os.path.join(VERIF, "harness", "tree")
SCRATCH_BASE = os.environ.get("VERIF_SCRATCH", "/var/tmp")
KANI_FEATURES = ["--no-default-features", "--features", "rust-allocator,__internal-api"]
CRATE_FEATURES = {
    "zlib-rs": ["--no-default-features", "--features", "rust-allocator,__internal-api"],
    "libz-rs-sys": ["--no-default-features", "--features", "rust-allocator"],
}
TOTAL_SLOTS = int(os.environ.get("VERIF_SLOTS", "16"))

sys.path.insert(0, os.path.join(VERIF, "harness"))
sys.path.insert(0, os.path.join(VERIF, "lib"))


def log(msg):
    print(msg, flush=True)


# ------------------------------------------------------------------------------------------------
# scratch copy + injection
# ------------------------------------------------------------------------------------------------
def make_scratch(tag):
    d = os.path.join(SCRATCH_BASE, "zlibrs-verif.%s.%d" % (tag, os.getpid()))
    if os.path.exists(d):
        shutil.rmtree(d)
    os.makedirs(d)
    subprocess.check_call(
        ["rsync", "-a", "--exclude", "target", os.path.join(REPO, "Cargo.toml"), os.path.join(REPO, "Cargo.lock"),
         os.path.join(REPO, "zlib-rs"), os.path.join(REPO, "libz-rs-sys"), d + "/"])
    # the scratch workspace has only the two library crates
    p = os.path.join(d, "Cargo.toml")
    s = open(p).read()
    s = re.sub(r'\n\s*"test-libz-rs-sys",', "", s)
    open(p, "w").write(s)
    inject(d)
    return d


def parent_module_file(root, rel):
    """rel = path of a verif_kani.rs inside the tree, e.g. zlib-rs/src/inflate/verif_kani.rs ->
    zlib-rs/src/inflate.rs ; zlib-rs/src/verif_kani.rs -> zlib-rs/src/lib.rs"""
    dirn = os.path.dirname(rel)
    if os.path.basename(dirn) == "src":
        return os.path.join(dirn, "lib.rs")
    cand = dirn + ".rs"
    if os.path.exists(os.path.join(root, cand)):
        return cand
    return os.path.join(dirn, "mod.rs")


def inject(scratch):
    injected = []
    for base, _dirs, files in os.walk(TREE):
        for f in files:
            src = os.path.join(base, f)
            rel = os.path.relpath(src, TREE)
            dst = os.path.join(scratch, rel)
            os.makedirs(os.path.dirname(dst), exist_ok=True)
            shutil.copyfile(src, dst)
            if f == "verif_kani.rs":
                parent = parent_module_file(scratch, rel)
                pp = os.path.join(scratch, parent)
                with open(pp, "a") as fh:
                    fh.write("\n#[cfg(kani)]\npub(crate) mod verif_kani;\n")
                injected.append(parent)
    return injected


# ------------------------------------------------------------------------------------------------
# running one Kani harness
# ------------------------------------------------------------------------------------------------
CHECK_RE = re.compile(r"^Check (\d+): (.+?)\s*$")


def parse_kani_output(text):
    res = {"checks": [], "failed": [], "covers": [], "verdict": None, "time_s": None, "n_checks": 0,
           "n_failed": 0, "undetermined": 0, "compile_error": False, "stubs": []}
    lines = text.splitlines()
    i = 0
    cur = None
    for ln in lines:
        m = CHECK_RE.match(ln)
        if m:
            cur = {"id": m.group(2), "status": None, "desc": "", "loc": ""}
            res["checks"].append(cur)
            continue
        s = ln.strip()
        if cur is not None:
            if s.startswith("- Status:"):
                cur["status"] = s.split(":", 1)[1].strip()
            elif s.startswith("- Description:"):
                cur["desc"] = s.split(":", 1)[1].strip().strip('"')
            elif s.startswith("- Location:"):
                cur["loc"] = s.split(":", 1)[1].strip()
                cur = None
        if s.startswith("- Stub:"):
            res["stubs"].append(s[len("- Stub:"):].strip())
        if s.startswith("VERIFICATION:-"):
            res["verdict"] = s.split(":-", 1)[1].strip()
        if s.startswith("Verification Time:"):
            try:
                res["time_s"] = float(s.split(":", 1)[1].strip().rstrip("s"))
            except ValueError:
                pass
        if re.match(r"^error(\[E\d+\])?:", s) and "could not compile" in s or re.match(r"^error\[E\d+\]", s):
            res["compile_error"] = True
        if s.startswith("error: could not compile"):
            res["compile_error"] = True
    for c in res["checks"]:
        if ".cover." in c["id"] or c["status"] in ("SATISFIED", "UNSATISFIABLE", "UNREACHABLE") and "cover" in c["id"]:
            res["covers"].append(c)
        else:
            res["n_checks"] += 1
            if c["status"] == "FAILURE":
                res["failed"].append(c)
            elif c["status"] == "UNDETERMINED":
                res["undetermined"] += 1
    res["n_failed"] = len(res["failed"])
    return res


class Job:
    def __init__(self, name, spec):
        self.name = name
        self.spec = spec
        self.result = None
        self.log = None
        self.status = "pending"   # ok | fail | inconclusive
        self.why = ""
        self.wall = 0.0
        self.oom = False
        self.rss_gb = None


def crate_dir(scratch, spec):
    return os.path.join(scratch, spec.get("crate", "zlib-rs"))


def kani_cmd(scratch, name, spec, extra=None, target=None):
    crate = spec.get("crate", "zlib-rs")
    cmd = ["cargo", "kani"] + CRATE_FEATURES[crate] + ["-Z", "stubbing", "-Z", "unstable-options",
                                                      "--harness", name, "--exact",
                                                      "--target-dir", target or os.path.join(scratch, "kt_" + name),
                                                      "--no-assertion-reach-checks"]
    if extra:
        cmd += extra
    cbmc_args = list(spec.get("cbmc_args", []))
    if cbmc_args:
        cmd += ["--cbmc-args"] + cbmc_args
    return cmd


def resolve_exact_name(name, spec):
    """--exact needs the full module path of the harness"""
    return spec["path"] + "::" + name


LIVE_PGIDS = set()
SCRATCH_DIRS = []


def _terminate(signum, frame):
    """SIGTERM/SIGINT: children run in their own sessions, so they would survive the runner; kill them and drop the scratch copy"""
    for pg in list(LIVE_PGIDS):
        try:
            os.killpg(pg, signal.SIGKILL)
        except (ProcessLookupError, PermissionError):
            pass
    for d in SCRATCH_DIRS:
        shutil.rmtree(d, ignore_errors=True)
    os._exit(130)


def run_limited(cmd, cwd, logf, timeout_s, mem_gb):
    env = dict(os.environ)
    env["CARGO_NET_OFFLINE"] = "true"
    env.pop("RUSTFLAGS", None)
    pre = "ulimit -v %d; exec /usr/bin/time -f MAXRSS_KB=%%M -o '%s.rss' " % (int(mem_gb * 1024 * 1024), logf)
    sh = pre + " ".join("'" + c.replace("'", "'\\''") + "'" for c in cmd)
    t0 = time.time()
    with open(logf, "w") as fh:
        p = subprocess.Popen(["bash", "-c", sh], cwd=cwd, stdout=fh, stderr=subprocess.STDOUT, env=env,
                             start_new_session=True)
        LIVE_PGIDS.add(p.pid)
        try:
            rc = p.wait(timeout=timeout_s)
            timed_out = False
        except subprocess.TimeoutExpired:
            timed_out = True
            try:
                os.killpg(p.pid, signal.SIGKILL)
            except ProcessLookupError:
                pass
            p.wait()
            rc = -9
        finally:
            LIVE_PGIDS.discard(p.pid)
    return rc, timed_out, time.time() - t0


def run_job(scratch, job, logdir, tier):
    spec = job.spec
    name = job.name
    full = resolve_exact_name(name, spec)
    logf = os.path.join(logdir, name + ".log")
    job.log = logf
    timeout_s = spec.get("timeout", 600) * float(os.environ.get("VERIF_TIMEOUT_SCALE", "1"))
    mem = spec.get("mem_gb", 12)
    extra = []
    cbmc_args = list(spec.get("cbmc_args", []))
    if os.environ.get("VERIF_CBMC_EXTRA") and "--max-field-sensitivity-array-size" not in cbmc_args:
        cbmc_args += os.environ["VERIF_CBMC_EXTRA"].split()  # development only: try a CBMC option on registered harnesses
    if spec.get("unwindset"):
        us = resolve_unwindset(scratch, name, full, spec, logdir)
        if us is None:
            job.status = "inconclusive"
            job.why = "could not resolve loop ids for --unwindset"
            return
        cbmc_args += ["--unwindset", us]
    sp = dict(spec)
    sp["cbmc_args"] = cbmc_args
    # ask for concrete-playback tests right away: they are only generated when a check fails and save a second solver run
    extra = extra + ["-Z", "concrete-playback", "--concrete-playback=print"]
    cmd = kani_cmd(scratch, full, sp, extra, os.path.join(scratch, "kt_" + name))
    rc, timed_out, wall = run_limited(cmd, crate_dir(scratch, spec), logf, timeout_s, mem)
    job.wall = wall
    job.oom = False
    try:
        job.rss_gb = int(re.search(r"MAXRSS_KB=(\d+)", open(logf + ".rss").read()).group(1)) / 1048576.0
    except (OSError, AttributeError, ValueError):
        job.rss_gb = None
    text = open(logf, errors="replace").read()
    res = parse_kani_output(text)
    job.result = res
    if timed_out:
        job.status = "inconclusive"
        job.why = "timeout after %ds" % timeout_s
        return
    if res["compile_error"] or ("error: could not compile" in text):
        job.status = "inconclusive"
        job.why = "harness does not compile against this tree"
        return
    if res["verdict"] is None:
        job.status = "inconclusive"
        oom = "std::bad_alloc" in text or "Out of memory" in text or "out of memory" in text.lower()
        job.why = "no verdict (%s, rc=%s)" % ("out of memory" if oom else "CBMC error", rc)
        return
    if res["verdict"] == "SUCCESSFUL":
        # rustc's jump threading may duplicate a `cover!(a && b)` call into a copy with a constant-false
        # condition: group by source location and require one SATISFIED instance per group
        groups = {}
        for c in res["covers"]:
            groups.setdefault((c["loc"], c["desc"]), []).append(c)
        bad = [cs[0] for cs in groups.values() if not any(c["status"] == "SATISFIED" for c in cs)]
        if bad:
            job.status = "inconclusive"
            job.why = "vacuity witness not reached: " + "; ".join(c["desc"] or c["id"] for c in bad)
            return
        if spec.get("min_covers") is not None and len(res["covers"]) < spec["min_covers"]:
            job.status = "inconclusive"
            job.why = "expected >= %d cover witnesses, saw %d" % (spec["min_covers"], len(res["covers"]))
            return
        job.status = "ok"
        return
    # FAILED
    if not res["failed"]:
        job.status = "inconclusive"
        if "Out of memory" in text or "std::bad_alloc" in text or "run out of memory" in text or "ran out of memory" in text:
            job.why = "CBMC out of memory (cap %d GB)" % mem
            job.oom = True
        else:
            job.why = "FAILED without failed checks (undetermined=%d)" % res["undetermined"]
        return
    job.status = "fail"


def resolve_unwindset(scratch, name, full, spec, logdir):
    """Loop ids are looked up on every run from the goto binary (by source file + function + ordinal),
    never hard-coded."""
    target = os.path.join(scratch, "kt_" + name)
    sp = dict(spec)
    sp["cbmc_args"] = ["--show-loops"]
    cmd = kani_cmd(scratch, full, sp, [], target)
    logf = os.path.join(logdir, name + ".loops.log")
    rc, timed_out, _ = run_limited(cmd, crate_dir(scratch, spec), logf, 600, 8)
    # kani fails to parse cbmc's answer, but the linked goto binary is now on disk
    outs = []
    for base, _d, files in os.walk(target):
        for f in files:
            if f.endswith(".out") and not f.endswith(".symtab.out") and f.endswith(name + ".out"):
                outs.append(os.path.join(base, f))
    if not outs:
        return None
    outs.sort(key=os.path.getmtime)
    txt = subprocess.run(["goto-instrument", "--show-loops", outs[-1]], stdout=subprocess.PIPE,
                         stderr=subprocess.STDOUT, text=True).stdout
    loops = []
    cur = None
    for ln in txt.splitlines():
        m = re.match(r"^Loop (\S+):$", ln)
        if m:
            cur = m.group(1)
            continue
        m = re.match(r"^\s+file (\S+) line (\d+) column \d+ function (.*)$", ln)
        if m and cur:
            loops.append((cur, m.group(1), int(m.group(2)), m.group(3)))
            cur = None
    with open(os.path.join(logdir, name + ".loops.txt"), "w") as fh:
        for l in loops:
            fh.write("%s\t%s:%d\t%s\n" % l)
    # entries: (function substring, source line or None = every loop of that function, bound); later entries override earlier ones
    chosen = {}
    for (fn_sub, line, bound) in spec["unwindset"]:
        hits = [l for l in loops if fn_sub in l[3]]
        if isinstance(line, tuple):
            # (source file, marker text): the loop that starts on the line holding the marker in the *current* source
            # (looked up on every run, so edits that shift lines do not break the bound)
            src, marker = line[0], line[1]
            delta = line[2] if len(line) > 2 else 0   # loop head `delta` lines away from the (unique) marker text
            want = None
            for no, txt in enumerate(open(os.path.join(scratch, src), errors="replace"), 1):
                if marker in txt:
                    want = no + delta
                    break
            hits = [l for l in hits if l[2] == want]
        elif line is not None:
            hits = [l for l in hits if l[2] == line]
        if not hits:
            return None
        for l in hits:
            chosen[l[0]] = bound
    parts = ["%s:%d" % kv for kv in sorted(chosen.items())]
    with open(os.path.join(logdir, name + ".unwindset"), "w") as fh:
        fh.write(",".join(parts) + "\n")
    return ",".join(parts)


# ------------------------------------------------------------------------------------------------
# scheduler
# ------------------------------------------------------------------------------------------------
def mem_estimate_gb(spec):
    """expected peak RSS of the harness's CBMC process: measured values live in the registry (`rss_gb`); otherwise a third of
    the cap.  Only used to keep the sum of concurrently running harnesses below the machine's memory."""
    return float(spec.get("rss_gb", spec.get("mem_gb", 12) / 3.0))


def mem_budget_gb():
    if os.environ.get("VERIF_MEM_BUDGET_GB"):
        return float(os.environ["VERIF_MEM_BUDGET_GB"])
    try:
        for ln in open("/proc/meminfo"):
            if ln.startswith("MemTotal:"):
                return max(8.0, int(ln.split()[1]) / 1048576.0 * 0.75)
    except OSError:
        pass
    return 40.0


def run_jobs(scratch, jobs, logdir, tier):
    lock = threading.Condition()
    free = [TOTAL_SLOTS]
    budget = mem_budget_gb()
    mem_free = [budget]
    order = sorted(jobs, key=lambda j: -j.spec.get("expect_s", 10))

    def worker(job, exclusive=False):
        w = TOTAL_SLOTS if exclusive else min(job.spec.get("weight", 1), TOTAL_SLOTS)
        m = budget if exclusive else min(mem_estimate_gb(job.spec), budget)
        with lock:
            while free[0] < w or mem_free[0] < m:
                lock.wait()
            free[0] -= w
            mem_free[0] -= m
        try:
            run_job(scratch, job, logdir, tier)
        except Exception as e:  # noqa
            job.status = "inconclusive"
            job.why = "runner exception: %r" % (e,)
        finally:
            # the per-harness target dir is no longer needed
            if not (getattr(job, "oom", False) and not exclusive):
                shutil.rmtree(os.path.join(scratch, "kt_" + job.name), ignore_errors=True)
            with lock:
                free[0] += w
                mem_free[0] += m
                lock.notify_all()
        if getattr(job, "oom", False) and not exclusive:
            log("  [retry] %-43s %6.1fs %s -> once more, alone" % (job.name, job.wall, job.why))
            return
        log("  [%s] %-44s %6.1fs %s" % (job.status.upper()[:4], job.name, job.wall, job.why))

    threads = []
    for j in order:
        t = threading.Thread(target=worker, args=(j,))
        t.start()
        threads.append(t)
        time.sleep(0.05)
    for t in threads:
        t.join()
    # a harness that ran out of memory may have been squeezed by its neighbours (or by other processes on the machine):
    # it gets one more run with the machine to itself before the result counts
    for j in order:
        if getattr(j, "oom", False):
            j.status, j.why = "pending", ""
            worker(j, exclusive=True)
            shutil.rmtree(os.path.join(scratch, "kt_" + j.name), ignore_errors=True)


# ------------------------------------------------------------------------------------------------
# replay (concrete playback against the natively compiled real code)
# ------------------------------------------------------------------------------------------------
def extract_playback_tests(text):
    tests = []
    for m in re.finditer(r"Concrete playback unit test for `([^`]+)`:\n```\n(.*?)\n```", text, re.S):
        body = m.group(2)
        chk = re.search(r"/// Check for `([^`]*)`: (.*)", body)
        fn = re.search(r"fn (kani_concrete_playback_\w+)\(", body)
        code = body[body.index("#[test]"):]
        tests.append({"harness": m.group(1), "check": chk.group(2).strip() if chk else "", "fn": fn.group(1), "code": code})
    return tests


def playback(scratch, spec, tests, logdir, tag, release=False):
    """append the generated #[test] functions to the harness's file and run them natively"""
    f = os.path.join(scratch, spec["file"])
    with open(f, "a") as fh:
        for t in tests:
            fh.write("\n" + t["code"] + "\n")
    crate = spec.get("crate", "zlib-rs")
    cmd = ["cargo", "kani", "playback", "-Z", "concrete-playback"] + CRATE_FEATURES[crate]
    if release:
        cmd += ["--release"]
    cmd += ["--", "kani_concrete_playback"]
    logf = os.path.join(logdir, tag + (".release" if release else ".dev") + ".playback.log")
    rc, timed_out, wall = run_limited(cmd, crate_dir(scratch, spec), logf, 420, 16)
    text = open(logf, errors="replace").read()
    out = {}
    for t in tests:
        m = re.search(r"test \S*%s \.\.\. (\w+)" % re.escape(t["fn"]), text)
        st = m.group(1) if m else None
        if st is None and ("SIGSEGV" in text or "signal: 11" in text):
            st = "SIGSEGV"
        if st is None and timed_out and re.search(r"^running \d+ tests?$", text, re.M):
            # the natively compiled test was started and did not return within the time limit: the counter-example
            # reproduces as non-termination (the build itself is included in the limit, hence the "running" check)
            st = "failed"
        out[t["fn"]] = st
    return out, logf


def replay_failure(scratch, job, logdir):
    """returns list of dicts {check, fn, code, dev, release} for the failing checks of a job"""
    spec = job.spec
    full = resolve_exact_name(job.name, spec)
    sp = dict(spec)
    cbmc_args = list(spec.get("cbmc_args", []))
    usf = os.path.join(logdir, job.name + ".unwindset")
    if os.path.exists(usf):
        cbmc_args += ["--unwindset", open(usf).read().strip()]
    sp["cbmc_args"] = cbmc_args
    # the first run already printed the concrete-playback tests for every failed check
    text = open(job.log, errors="replace").read()
    tests = extract_playback_tests(text)
    if not tests:
        return []
    dev, _ = playback(scratch, spec, tests, logdir, job.name, release=False)
    for t in tests:
        t["dev"] = dev.get(t["fn"])
    return tests


# ------------------------------------------------------------------------------------------------
# known findings
# ------------------------------------------------------------------------------------------------
def load_known():
    p = os.path.join(VERIF, "known_findings.json")
    if not os.path.exists(p):
        return {"open": [], "fixed": []}
    return json.load(open(p))


def match_known(known, pid, harness, check):
    for k in known.get("open", []):
        if pid not in k.get("properties", [k.get("property")]):
            continue
        if k.get("harness") and k["harness"] != harness:
            continue
        if k.get("check_contains") and k["check_contains"] not in check["desc"]:
            continue
        if k.get("location_contains") and k["location_contains"] not in check["loc"]:
            continue
        return k
    return None


# ------------------------------------------------------------------------------------------------
# main entry
# ------------------------------------------------------------------------------------------------
def main(argv):
    import argparse
    import registry
    ap = argparse.ArgumentParser()
    ap.add_argument("property", nargs="?")
    ap.add_argument("--tier", default=os.environ.get("VERIF_TIER", "quick"))
    ap.add_argument("--only", action="append", default=[])
    ap.add_argument("--keep", action="store_true")
    ap.add_argument("--replay")
    ap.add_argument("--list", action="store_true")
    ap.add_argument("--no-evidence", action="store_true")
    args = ap.parse_args(argv)
    if args.list:
        for n, s in sorted(registry.HARNESSES.items()):
            print("%-46s %-9s %-28s w=%d t=%ds" % (n, s.get("tier", "quick"), ",".join(s["props"]), s.get("weight", 1), s.get("timeout", 600)))
        return 0
    if args.replay:
        return do_replay(args.replay, registry)
    pid = args.property
    tier = args.tier if args.tier in ("quick", "thorough") else "quick"
    try:
        seed = int(os.environ.get("VERIF_SEED", "0"))
    except ValueError:
        seed = 0
    t0 = time.time()
    sel = {}
    for n, s in registry.HARNESSES.items():
        if args.only:
            if n in args.only:
                sel[n] = s
            continue
        if pid not in s["props"]:
            continue
        if tier == "thorough" or n in registry.QUICK.get(pid, []):
            sel[n] = s
    engine_b = [q for q in getattr(registry, "ENGINE_B", []) if pid in q["props"]] if not args.only else []
    if not sel and not engine_b:
        log("no checks registered for %s" % pid)
        return 2
    scratch = make_scratch(pid or "x")
    SCRATCH_DIRS.append(scratch)
    signal.signal(signal.SIGTERM, _terminate)
    signal.signal(signal.SIGINT, _terminate)
    logdir = os.path.join(VERIF, "logs", "%s.%s" % (pid, tier))
    lock = os.path.join(logdir, ".pid")
    try:
        other = int(open(lock).read())
        os.kill(other, 0)
        logdir += ".%d" % os.getpid()   # another run of the same check is alive: do not disturb its logs
    except (OSError, ValueError):
        pass
    shutil.rmtree(logdir, ignore_errors=True)
    os.makedirs(logdir)
    open(os.path.join(logdir, ".pid"), "w").write(str(os.getpid()))
    log("== %s tier=%s seed=%d scratch=%s harnesses=%d engineB=%d" % (pid, tier, seed, scratch, len(sel), len(engine_b)))
    jobs = [Job(n, s) for n, s in sel.items()]
    # VERIF_SEED only permutes scheduling: a solver query has no randomness
    if seed:
        import random
        random.Random(seed).shuffle(jobs)
    exit_code = 0
    violations = []
    known_lines = []
    inconclusive = []
    eb_results = []
    try:
        ebt = None
        if engine_b:
            import engine_b as eb

            def run_eb():
                try:
                    eb_results.extend(eb.run_queries(scratch, engine_b, logdir))
                except Exception as e:  # noqa
                    eb_results.append({"name": "engine_b", "status": "inconclusive", "why": repr(e), "queries": 0, "time_s": 0})
            ebt = threading.Thread(target=run_eb)
            ebt.start()
        run_jobs(scratch, jobs, logdir, tier)
        if ebt:
            ebt.join()
        known = load_known()
        for j in jobs:
            if j.status == "inconclusive":
                inconclusive.append("%s: %s" % (j.name, j.why))
            elif j.status == "fail":
                unknown = []
                for c in j.result["failed"]:
                    k = match_known(known, pid, j.name, c)
                    if k:
                        line = "KNOWN-FINDING: property=%s %s [harness %s: %s @ %s]" % (pid, k["what"], j.name, c["desc"], c["loc"])
                        if line not in known_lines:
                            known_lines.append(line)
                    else:
                        unknown.append(c)
                if not unknown:
                    j.status = "known"
                    continue
                only_unwind = all("unwinding assertion" in c["desc"] for c in unknown)
                tests = replay_failure(scratch, j, logdir)
                repro = [t for t in tests if t.get("dev") in ("FAILED", "SIGSEGV", "failed")]
                # do not count counter-examples that only reproduce a known finding
                repro_new = []
                for t in repro:
                    fake = {"desc": t["check"].strip('"'), "loc": ""}
                    kk = None
                    for k in known.get("open", []):
                        if pid in k.get("properties", []) and (not k.get("harness") or k["harness"] == j.name) \
                                and k.get("check_contains", "\0") in t["check"]:
                            kk = k
                    if kk is None:
                        repro_new.append(t)
                if repro_new:
                    rdir = os.path.join(VERIF, "replays", pid)
                    os.makedirs(rdir, exist_ok=True)
                    rp = os.path.join(rdir, j.name + ".json")
                    json.dump({"property": pid, "harness": j.name, "file": j.spec["file"], "crate": j.spec.get("crate", "zlib-rs"),
                               "failed_checks": unknown, "tests": repro_new}, open(rp, "w"), indent=1)
                    violations.append((j.name, rp, unknown))
                else:
                    why = "unwinding assertion failed (bound too small or non-termination)" if only_unwind else \
                        "counter-example did not reproduce natively (encoding or stub suspected)"
                    inconclusive.append("%s: %s: %s" % (j.name, why, "; ".join(c["desc"] for c in unknown[:3])))
                    j.status = "inconclusive"
                    j.why = why
        for r in eb_results:
            if r["status"] == "inconclusive":
                inconclusive.append("engineB %s: %s" % (r["name"], r.get("why", "")))
            elif r["status"] == "fail":
                rdir = os.path.join(VERIF, "replays", pid)
                os.makedirs(rdir, exist_ok=True)
                rp = os.path.join(rdir, "engineB_" + r["name"] + ".json")
                json.dump(r, open(rp, "w"), indent=1)
                violations.append(("engineB:" + r["name"], rp, [{"desc": r.get("why", ""), "loc": ""}]))
    finally:
        if not args.keep:
            shutil.rmtree(scratch, ignore_errors=True)
    wall = time.time() - t0
    for l in known_lines:
        log(l)
    for (h, rp, checks) in violations:
        log("VIOLATION property=%s replay=%s" % (pid, rp))
        for c in checks[:5]:
            log("    %s: %s @ %s" % (h, c["desc"], c["loc"]))
    for i in inconclusive:
        log("INCONCLUSIVE: " + i)
    if violations:
        exit_code = 1
    elif inconclusive:
        exit_code = 2
    if not args.no_evidence and not args.only:
        write_evidence(pid, tier, seed, jobs, eb_results, wall, violations, known_lines, inconclusive, registry)
    log("== %s done in %.0fs: %d harnesses, %d violations, %d inconclusive, %d known findings -> exit %d" %
        (pid, wall, len(jobs), len(violations), len(inconclusive), len(known_lines), exit_code))
    return exit_code


def write_evidence(pid, tier, seed, jobs, eb_results, wall, violations, known_lines, inconclusive, registry):
    samples = []
    evaluations = 0
    nontrivial = 0
    assumptions = set()
    solver_time = 0.0
    for j in jobs:
        r = j.result or {}
        nchecks = r.get("n_checks", 0)
        ncov = len(r.get("covers", []))
        user = [c for c in r.get("checks", []) if "verif_kani" in c["loc"] and ".cover." not in c["id"] and "assertion" in c["id"]]
        decided = j.status in ("ok", "known", "fail")
        if decided:
            evaluations += nchecks + ncov
            nontrivial += len({(c["loc"], c["desc"]) for c in user if c["status"] in ("SUCCESS", "FAILURE")}) + \
                len({(c["loc"], c["desc"]) for c in r.get("covers", []) if c["status"] == "SATISFIED"})
        solver_time += r.get("time_s") or 0
        s = j.spec
        for a in s.get("assumptions", []):
            assumptions.add(a)
        for st in r.get("stubs", []):
            assumptions.add("stub: " + st)
        samples.append({
            "harness": j.name, "kernel": s.get("kernel", ""), "status": j.status, "why": j.why,
            "functions_encoded": s.get("functions", []), "bounds": s.get("bounds", ""),
            "cbmc_checks": nchecks, "harness_assertions": len(user), "failed": r.get("n_failed", 0),
            "cover_witnesses": sorted({"%s=%s" % (c["desc"] or c["id"], c["status"]) for c in r.get("covers", []) if c["status"] == "SATISFIED"}),
            "kani_verification_time_s": r.get("time_s"), "wall_s": round(j.wall, 1),
            "peak_rss_gb": round(j.rss_gb, 2) if getattr(j, "rss_gb", None) else None,
        })
    for r in eb_results:
        if r["status"] in ("ok", "fail"):
            evaluations += r.get("queries", 0)
            nontrivial += r.get("queries", 0)
        solver_time += r.get("time_s", 0)
        samples.append({"engine": "B (MIR->SMT-LIB)", "name": r["name"], "status": r["status"], "why": r.get("why", ""),
                        "functions_encoded": r.get("functions", []), "bounds": r.get("bounds", ""),
                        "queries": r.get("queries", 0), "solver_time_s": r.get("time_s", 0),
                        "translator_validation_vectors": r.get("validated", 0), "solvers": r.get("solvers", [])})
        for a in r.get("assumptions", []):
            assumptions.add(a)
    ev = {
        "property_id": pid, "tier": tier, "seed": seed, "level": "model_checking",
        "coverage": {
            "evaluations": evaluations,
            "distinct_nontrivial": nontrivial,
            "rule": "evaluations = solver-decided obligations of this run (CBMC checks incl. pointer/bounds/overflow/unwinding "
                    "assertions + cover witnesses + Engine-B queries) over harnesses whose verdict was decided; "
                    "distinct_nontrivial = distinct harness-level property assertions decided (SUCCESS or FAILURE) plus "
                    "cover witnesses SATISFIED plus Engine-B queries; each is a distinct source location / query. "
                    "Every obligation ranges over all values of the harness's symbolic inputs within the stated bounds.",
            "samples": samples,
            "harnesses": len(jobs),
            "harnesses_decided": len([j for j in jobs if j.status in ("ok", "known", "fail")]),
            "solver_time_s": round(solver_time, 1),
            "exhaustive": False,
            "inconclusive": inconclusive,
            "known_findings": known_lines,
            "out_of_bounds_note": registry.OUTSIDE.get(pid, ""),
        },
        "assumptions": sorted(assumptions),
        "wall_s": round(wall, 1),
        "violations": len(violations),
    }
    os.makedirs(os.path.join(VERIF, "evidence"), exist_ok=True)
    with open(os.path.join(VERIF, "evidence", pid + ".json"), "w") as fh:
        json.dump(ev, fh, indent=1)


def do_replay(path, registry):
    d = json.load(open(path))
    if "tests" not in d:
        log(json.dumps(d, indent=1))
        return 0
    scratch = make_scratch("replay")
    logdir = os.path.join(VERIF, "logs", "replay")
    os.makedirs(logdir, exist_ok=True)
    try:
        spec = {"file": d["file"], "crate": d.get("crate", "zlib-rs")}
        res, logf = playback(scratch, spec, d["tests"], logdir, d["harness"])
        log("replay (dev profile): %s   log: %s" % (res, logf))
        bad = any(v in ("FAILED", "SIGSEGV", "failed") for v in res.values())
    finally:
        shutil.rmtree(scratch, ignore_errors=True)
    if bad:
        log("VIOLATION property=%s replay=%s" % (d["property"], path))
        return 1
    return 0


if __name__ == "__main__":
    sys.exit(main(sys.argv[1:]))
